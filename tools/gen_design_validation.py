#!/usr/bin/env python3
"""Rewrites section 11 of DESIGN.md from selftest/results_seeded.json, results_mutants.json and seeded/*/meta.json."""
import json, os, re, subprocess, glob
V = os.path.dirname(os.path.dirname(os.path.abspath(__file__)))
tab = subprocess.run(["python3", os.path.join(V, "tools", "gen_validation_table.py")], capture_output=True, text=True).stdout
tab = re.sub(r" \(\d+ occurrence\(s\); builds: [^)]*\)", "", tab)
tab = tab.replace("MISSED (silent)", "quick: silent — thorough: caught (see text)")
seeds = sorted(glob.glob(os.path.join(V, "seeded", "*", "meta.json")))
res = json.load(open(os.path.join(V, "selftest", "results_seeded.json")))
n = len(res)
own_caught = 0
thorough_only = []
for r in res:
    meta = json.load(open(os.path.join(V, r["name"], "meta.json")))
    if r["checks"].get(meta["property"], {}).get("rc") == 1:
        own_caught += 1
    else:
        thorough_only.append(os.path.basename(r["name"]))
mut = json.load(open(os.path.join(V, "selftest", "results_mutants.json")))
rows = []
suite_fail = 0
for r in mut:
    caught = [p for p, c in r["checks"].items() if c["rc"] == 1]
    missed = [p for p in r["checks"] if p not in caught]
    if r.get("suite_rc") != 0:
        suite_fail += 1
    rows.append("| %s | %s | %s | %s |" % (r["name"], "pass" if r.get("suite_rc") == 0 else "fails", ", ".join(caught), ", ".join(missed) or "-"))
all_mut = sum(1 for r in mut if any(c["rc"] == 1 for c in r["checks"].values()))
sec = open(os.path.join(V, "tools", "design_section11_head.md")).read()
sec = sec.replace("@N@", str(n)).replace("@OWN@", str(own_caught)).replace("@TH@", ", ".join(thorough_only)).replace("@NTH@", str(len(thorough_only)))
sec += "\n" + tab + "\n"
sec += open(os.path.join(V, "tools", "design_section11_mutants.md")).read().replace("@NM@", str(len(mut))).replace("@MC@", str(all_mut)).replace("@SF@", str(suite_fail))
sec += "\n".join(rows) + "\n"
p = os.path.join(V, "DESIGN.md")
s = open(p).read()
if "\n## 11. Validation" in s:
    s = s[:s.index("\n## 11. Validation")]
open(p, "w").write(s.rstrip("\n") + "\n\n" + sec)
print("section 11 rewritten: %d seeds (%d caught by own quick check), %d mutants (%d caught)" % (n, own_caught, len(mut), all_mut))
