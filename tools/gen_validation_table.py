#!/usr/bin/env python3
"""Renders selftest/results_*.json + seeded/*/meta.json into markdown tables (for DESIGN.md section 11)."""
import json, os, glob
V = os.path.dirname(os.path.dirname(os.path.abspath(__file__)))
def first_line(path):
    try:
        for l in open(path):
            l = l.strip().lstrip("#").strip()
            if l: return l
    except OSError:
        pass
    return ""
out = []
rs = os.path.join(V, "selftest", "results_seeded.json")
if os.path.exists(rs):
    res = {r["name"]: r for r in json.load(open(rs))}
    out.append("| seeded change (property) | what it does / needs | own check | signature |\n|---|---|---|---|")
    for d in sorted(glob.glob(os.path.join(V, "seeded", "*"))):
        name = "seeded/" + os.path.basename(d)
        meta = json.load(open(os.path.join(d, "meta.json")))
        r = res.get(name)
        summ = meta.get("summary") or first_line(os.path.join(d, "notes.md"))
        if r is None:
            out.append("| %s (%s) | %s | (not run) | |" % (os.path.basename(d), meta["property"], summ[:160]))
            continue
        own = r["checks"].get(meta["property"], {})
        verdict = {1: "caught", 0: "MISSED (silent)", 2: "inconclusive", -9: "timeout"}.get(own.get("rc"), str(own.get("rc")))
        others = [p for p, c in r["checks"].items() if c["rc"] == 1 and p != meta["property"]]
        sig = (own.get("signatures") or [""])[0]
        out.append("| %s (%s) | %s | %s%s | `%s` |" % (os.path.basename(d), meta["property"], summ[:200].replace("|", "/"), verdict,
                                                  (" (+ " + ", ".join(others) + ")") if others else "", sig))
print("\n".join(out))
