#!/usr/bin/env python3
"""Validates the monitors against the mutant corpus (selftest/mutants) and the seeded changes
(seeded/*/patch.diff): each patch is applied to a scratch copy of /repo (never to /repo itself),
the repository's own test suite must still pass (otherwise the change is not 'realistic'), and
the targeted quick checks must report a violation. Writes selftest/RESULTS.md + results.json.

usage: tools/selftest.py [--jobs N] [--only substring] [--all-props] [--seeded]
"""
import json, os, shutil, subprocess, sys, time, threading, queue
V = os.path.dirname(os.path.dirname(os.path.abspath(__file__)))
SCR = "/tmp/vselftest/%d" % os.getpid()  # one scratch area per invocation (concurrent runs must not share worker clones)

def sh(cmd, cwd=None, env=None, timeout=3600):
    p = subprocess.run(cmd, cwd=cwd, env=env, stdout=subprocess.PIPE, stderr=subprocess.STDOUT, text=True, timeout=timeout)
    return p.returncode, p.stdout

def setup_worker(i):
    w = os.path.join(SCR, "w%d" % i)
    shutil.rmtree(w, ignore_errors=True)
    os.makedirs(w)
    repo = os.path.join(w, "repo")
    rc, out = sh(["git", "clone", "-q", "/repo", repo])
    assert rc == 0, out
    # carry over uncommitted state of /repo? no: the corpus is defined against HEAD
    harness = os.path.join(w, "harness")
    shutil.copytree(os.path.join(V, "harness"), harness, ignore=shutil.ignore_patterns("target"))
    ct = os.path.join(harness, "Cargo.toml")
    s = open(ct).read().replace('path = "/repo"', 'path = "%s"' % repo)
    open(ct, "w").write(s)
    return w

def run_one(w, name, patch, props, tier="quick"):
    repo = os.path.join(w, "repo")
    res = {"name": name, "expected": props, "checks": {}}
    rc, out = sh(["git", "-C", repo, "apply", patch])
    if rc != 0:
        res["error"] = "patch does not apply: " + out[-300:]
        return res
    try:
        env = dict(os.environ, CARGO_NET_OFFLINE="true", CARGO_TARGET_DIR=os.path.join(w, "repo-target"))
        t0 = time.time()
        rc, out = sh(["cargo", "test", "--workspace", "--no-fail-fast", "--offline"], cwd=repo, env=env)
        passed = sum(int(l.split("passed")[0].split()[-1]) for l in out.splitlines() if l.startswith("test result:"))
        res["suite_rc"] = rc
        res["suite_passed"] = passed
        res["suite_s"] = round(time.time() - t0, 1)
        if rc != 0:
            res["suite_fail_tail"] = "\n".join([l for l in out.splitlines() if "FAILED" in l or "failed" in l or l.startswith("error")][:6])
        env2 = dict(os.environ, VCHECK_HARNESS=os.path.join(w, "harness"), VCHECK_TARGET=os.path.join(w, "target"), VCHECK_OUT=os.path.join(w, "out"))
        for pid in props:
            t0 = time.time()
            try:
                rc, out = sh([os.path.join(V, "check"), "run", pid, "--tier", tier], cwd=V, env=env2, timeout=1500 if tier == "quick" else 7200)
            except subprocess.TimeoutExpired:
                rc, out = -9, "TIMEOUT"
            sigs = [l.strip()[len("signature: "):] for l in out.splitlines() if l.strip().startswith("signature:")]
            res["checks"][pid] = {"rc": rc, "s": round(time.time() - t0, 1), "signatures": sigs[:4],
                                  "tail": "" if rc == 1 else out[-400:]}
    finally:
        sh(["git", "-C", repo, "checkout", "--", "."])
        sh(["git", "-C", repo, "clean", "-fdq"])
    return res

def main():
    args = sys.argv[1:]
    jobs = 4
    only = None
    all_props = False
    seeded = False
    tier = "quick"
    i = 0
    while i < len(args):
        if args[i] == "--jobs": jobs = int(args[i+1]); i += 2
        elif args[i] == "--only": only = args[i+1]; i += 2
        elif args[i] == "--all-props": all_props = True; i += 1
        elif args[i] == "--seeded": seeded = True; i += 1
        elif args[i] == "--tier": tier = args[i+1]; i += 2
        else: print(__doc__); return 2
    ALL = ["C%02d" % k for k in range(1, 20)]
    items = []
    if seeded:
        sd = os.path.join(V, "seeded")
        for d in sorted(os.listdir(sd)) if os.path.isdir(sd) else []:
            mp = os.path.join(sd, d, "meta.json")
            pp = os.path.join(sd, d, "patch.diff")
            if os.path.exists(mp) and os.path.exists(pp):
                meta = json.load(open(mp))
                items.append(("seeded/" + d, pp, meta.get("also_check", [meta["property"]]) if not all_props else ALL))
    else:
        idx = json.load(open(os.path.join(V, "selftest", "mutants", "index.json")))
        for e in idx:
            items.append((e["name"], os.path.join(V, "selftest", "mutants", e["name"] + ".patch"), e["expected_to_break"]))
    if only:
        items = [x for x in items if only in x[0]]
    if all_props:
        items = [(n, p, ALL) for (n, p, _) in items]
    q = queue.Queue()
    for it in items:
        q.put(it)
    results = []
    lock = threading.Lock()
    def worker(i):
        w = setup_worker(i)
        while True:
            try:
                name, patch, props = q.get_nowait()
            except queue.Empty:
                break
            r = run_one(w, name, patch, props, tier)
            with lock:
                results.append(r)
                caught = [p for p, c in r["checks"].items() if c["rc"] == 1]
                print("%-45s suite=%s caught_by=%s missed_by=%s" % (name, "pass" if r.get("suite_rc") == 0 else "FAIL(%s)" % r.get("suite_rc"), caught, [p for p in r["checks"] if p not in caught]), flush=True)
        shutil.rmtree(w, ignore_errors=True)
    ths = [threading.Thread(target=worker, args=(i,)) for i in range(min(jobs, len(items)))]
    for t in ths: t.start()
    for t in ths: t.join()
    shutil.rmtree(SCR, ignore_errors=True)
    tag = "seeded" if seeded else "mutants"
    if only:
        # partial run: merge into the existing results
        try:
            old = json.load(open(os.path.join(V, "selftest", "results_%s.json" % tag)))
        except OSError:
            old = []
        names = {r["name"] for r in results}
        results = [r for r in old if r["name"] not in names] + results
    results.sort(key=lambda r: r["name"])
    json.dump(results, open(os.path.join(V, "selftest", "results_%s.json" % tag), "w"), indent=1)
    with open(os.path.join(V, "selftest", "RESULTS_%s.md" % tag), "w") as f:
        f.write("# Monitor validation against %s (tier %s)\n\n" % (tag, tier))
        f.write("Each change was applied to a scratch clone of /repo; `suite` = the repository's own tests on the changed tree; a check `catches` a change when it exits 1 with a VIOLATION line.\n\n")
        f.write("| change | own test suite | caught by | first signature | not caught by |\n|---|---|---|---|---|\n")
        for r in results:
            caught = [p for p, c in r["checks"].items() if c["rc"] == 1]
            missed = [p for p in r["checks"] if p not in caught]
            sig = next((c["signatures"][0] for p, c in r["checks"].items() if c["rc"] == 1 and c["signatures"]), "")
            f.write("| %s | %s | %s | `%s` | %s |\n" % (r["name"], ("pass (%d)" % r.get("suite_passed", 0)) if r.get("suite_rc") == 0 else "FAILS", ", ".join(caught), sig, ", ".join(missed) or "-"))
    n_caught = sum(1 for r in results if any(c["rc"] == 1 for c in r["checks"].values()))
    print("%d/%d changes caught by at least one targeted check" % (n_caught, len(results)))
    return 0

if __name__ == "__main__":
    sys.exit(main())
