#!/usr/bin/env python3
"""Confirms a sub-agent's breaking change in its scratch worktree and stores it under
/verif/seeded/<name>/ (patch.diff, demo, meta.json). Nothing is ever applied to /repo.

usage: tools/ingest_seed.py <worktree dir> <property id> <name> [--needs "text"]
Confirms: (1) patch applies to a clean checkout, (2) the repository's own suite still passes
with it (demo moved away), (3) the demonstration fails with the patch and (4) passes without.
"""
import json, os, shutil, subprocess, sys, re
V = os.path.dirname(os.path.dirname(os.path.abspath(__file__)))

def sh(cmd, cwd=None, env=None, timeout=1800):
    p = subprocess.run(cmd, cwd=cwd, env=env, stdout=subprocess.PIPE, stderr=subprocess.STDOUT, text=True, timeout=timeout, shell=isinstance(cmd, str))
    return p.returncode, p.stdout

def main():
    wt, pid, name = sys.argv[1], sys.argv[2], sys.argv[3]
    needs = sys.argv[5] if len(sys.argv) > 5 and sys.argv[4] == "--needs" else ""
    out = os.path.join(wt, "out")
    patch = os.path.join(out, "patch.diff")
    assert os.path.exists(patch), "no patch.diff"
    env = dict(os.environ, CARGO_NET_OFFLINE="true", CARGO_TARGET_DIR=os.path.join(wt, "target"))
    log = []
    # locate the demo
    demos = [f for f in os.listdir(os.path.join(wt, "tests")) if f.startswith("demo")]
    demo_crate = os.path.join(wt, "demo_crate")
    has_crate = os.path.isdir(demo_crate)
    assert demos or has_crate, "no demo found"
    stash = os.path.join(wt, "out", "_demo_stash")
    os.makedirs(stash, exist_ok=True)
    def demo_cmds():
        cmds = []
        for d in demos:
            src = open(os.path.join(wt, "tests", d)).read()
            e = dict(env)
            if "verif_hooks" in src:
                e["RUSTFLAGS"] = "--cfg helgoboss_midi_verif"
                e["CARGO_TARGET_DIR"] = os.path.join(wt, "target-verif")
            cmds.append((["cargo", "test", "--offline", "--test", d[:-3]], wt, e))
        if has_crate:
            e = dict(env, CARGO_TARGET_DIR=os.path.join(wt, "target-demo"))
            main_rs = os.path.join(demo_crate, "src", "main.rs")
            if os.path.exists(main_rs):
                cmds.append((["cargo", "run", "--offline", "--quiet"], demo_crate, e))
            else:
                cmds.append((["cargo", "test", "--offline"], demo_crate, e))
        return cmds
    def run_demos():
        rcs = []
        for cmd, cwd, e in demo_cmds():
            rc, o = sh(cmd, cwd=cwd, env=e)
            rcs.append(rc)
            log.append("$ %s (cwd %s) -> rc %d\n%s" % (" ".join(cmd), cwd, rc, "\n".join(o.splitlines()[-6:])))
        return rcs
    # --- original tree
    sh(["git", "-C", wt, "checkout", "--", "src", "Cargo.toml"])
    rc_orig = run_demos()
    # --- with patch
    rc, o = sh(["git", "-C", wt, "apply", patch])
    assert rc == 0, "patch does not apply to clean checkout: " + o
    rc_mut = run_demos()
    # suite with patch, demo moved away
    for d in demos:
        shutil.move(os.path.join(wt, "tests", d), os.path.join(stash, d))
    rc_suite, o = sh(["cargo", "test", "--workspace", "--no-fail-fast", "--offline"], cwd=wt, env=env)
    passed = sum(int(l.split("passed")[0].split()[-1]) for l in o.splitlines() if l.startswith("test result:"))
    rc_nostd, o2 = sh(["cargo", "build", "--offline", "--no-default-features"], cwd=wt, env=env)
    for d in demos:
        shutil.move(os.path.join(stash, d), os.path.join(wt, "tests", d))
    ok = all(r == 0 for r in rc_orig) and any(r != 0 for r in rc_mut) and rc_suite == 0 and passed >= 74 and rc_nostd == 0
    print("demo on original: %s | demo with change: %s | suite with change: rc=%d passed=%d | no-std build rc=%d => %s" %
          (rc_orig, rc_mut, rc_suite, passed, rc_nostd, "CONFIRMED" if ok else "REJECTED"))
    if not ok:
        print("\n".join(log)[-3000:])
        return 1
    dst = os.path.join(V, "seeded", name)
    os.makedirs(dst, exist_ok=True)
    shutil.copy(patch, os.path.join(dst, "patch.diff"))
    for d in demos:
        shutil.copy(os.path.join(wt, "tests", d), os.path.join(dst, d))
    if has_crate:
        shutil.copytree(demo_crate, os.path.join(dst, "demo_crate"), dirs_exist_ok=True, ignore=shutil.ignore_patterns("target", "Cargo.lock"))
    notes = os.path.join(out, "notes.md")
    if os.path.exists(notes):
        shutil.copy(notes, os.path.join(dst, "notes.md"))
    meta = {
        "property": pid, "name": name, "author": "independent sub-agent (given only the property text and a scratch worktree)",
        "needs_to_manifest": needs,
        "confirmed": {
            "repo_head": subprocess.run(["git", "-C", wt, "rev-parse", "--short", "HEAD"], capture_output=True, text=True).stdout.strip(),
            "own_suite_with_change": "pass (%d tests incl. doc tests)" % passed,
            "no_std_build_with_change": "ok",
            "demo_on_original_tree": "passes", "demo_with_change": "fails",
            "commands": [" ".join(c[0]) for c in demo_cmds()] + ["cargo test --workspace --no-fail-fast --offline"],
        },
        "also_check": [pid],
    }
    json.dump(meta, open(os.path.join(dst, "meta.json"), "w"), indent=1)
    print("stored in", dst)
    return 0

if __name__ == "__main__":
    sys.exit(main())
