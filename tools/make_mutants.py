#!/usr/bin/env python3
"""Generates the self-test mutant corpus (selftest/mutants/*.patch) from (file, old, new) edits
against /repo's HEAD. Each mutant is a small realistic breaking change."""
import os, subprocess, sys, json
V = os.path.dirname(os.path.dirname(os.path.abspath(__file__)))
OUT = os.path.join(V, "selftest", "mutants")
R = "/repo"
M = []
def m(name, props, file, old, new, note=""):
    M.append((name, props, file, old, new, note))

# ---- C01
m("c01_swap_data_bytes_polykp", ["C01"], "src/structured_short_message.rs",
  """            PolyphonicKeyPressure => StructuredShortMessage::PolyphonicKeyPressure {
                channel: extract_channel_from_status_byte(status_byte),
                key_number: data_byte_1.into(),
                pressure_amount: data_byte_2,""",
  """            PolyphonicKeyPressure => StructuredShortMessage::PolyphonicKeyPressure {
                channel: extract_channel_from_status_byte(status_byte),
                key_number: data_byte_2.into(),
                pressure_amount: data_byte_1,""")
m("c01_low7_mask_3f", ["C01"], "src/bit_util.rs", "U7((value.get() & 0x7f) as u8)", "U7((value.get() & 0x3f) as u8)")
m("c01_timecode_type_no_shift", ["C01"], "src/short_message.rs", "time_code_type: ((data & 0b0000110) >> 1)", "time_code_type: ((data & 0b0000011))")
m("c01_song_select_data2", ["C01"], "src/structured_short_message.rs", "            SongSelect { .. } => U7::MIN,\n            TuneRequest => U7::MIN,\n            SystemExclusiveEnd => U7::MIN,\n            TimingClock => U7::MIN,\n            Start => U7::MIN,\n            Continue => U7::MIN,\n            Stop => U7::MIN,\n            ActiveSensing => U7::MIN,\n            SystemReset => U7::MIN,\n            SystemCommonUndefined1 => U7::MIN,\n            SystemCommonUndefined2 => U7::MIN,\n            SystemRealTimeUndefined1 => U7::MIN,\n            SystemRealTimeUndefined2 => U7::MIN,\n        }\n    }\n\n    // Slight",
  "            SongSelect { song_number } => *song_number,\n            TuneRequest => U7::MIN,\n            SystemExclusiveEnd => U7::MIN,\n            TimingClock => U7::MIN,\n            Start => U7::MIN,\n            Continue => U7::MIN,\n            Stop => U7::MIN,\n            ActiveSensing => U7::MIN,\n            SystemReset => U7::MIN,\n            SystemCommonUndefined1 => U7::MIN,\n            SystemCommonUndefined2 => U7::MIN,\n            SystemRealTimeUndefined1 => U7::MIN,\n            SystemRealTimeUndefined2 => U7::MIN,\n        }\n    }\n\n    // Slight")
# ---- C02
m("c02_channel_mode_from_121", ["C02"], "src/controller_number_mod.rs", "*self >= controller_numbers::ALL_SOUND_OFF", "*self > controller_numbers::ALL_SOUND_OFF")
m("c02_note_on_velocity_ge_min", ["C02"], "src/short_message.rs", "StructuredShortMessage::NoteOn { velocity, .. } => velocity > U7::MIN,", "StructuredShortMessage::NoteOn { velocity, .. } => velocity > U7(1),")
m("c02_channel_pressure_byte", ["C02"], "src/short_message.rs", "ChannelPressure => Some(self.data_byte_1()),", "ChannelPressure => Some(self.data_byte_2()),")
m("c02_song_select_realtime", ["C02"], "src/short_message.rs", """            | SystemReset => SystemRealTime,
            TimeCodeQuarterFrame
            | SongPositionPointer
            | SongSelect
            | SystemCommonUndefined1
            | SystemCommonUndefined2
            | TuneRequest
            | SystemExclusiveEnd => SystemCommon,
            SystemExclusiveStart => SystemExclusive,
        }
    }

    /// Returns the main category of this message.""", """            | SongSelect
            | SystemReset => SystemRealTime,
            TimeCodeQuarterFrame
            | SongPositionPointer
            | SystemCommonUndefined1
            | SystemCommonUndefined2
            | TuneRequest
            | SystemExclusiveEnd => SystemCommon,
            SystemExclusiveStart => SystemExclusive,
        }
    }

    /// Returns the main category of this message.""")
# ---- C03
m("c03_structured_override_key_number", ["C03"], "src/structured_short_message.rs", "    // Slight optimization\n    fn to_structured(&self) -> StructuredShortMessage {\n        *self\n    }",
  "    // Slight optimization\n    fn to_structured(&self) -> StructuredShortMessage {\n        *self\n    }\n\n    fn key_number(&self) -> Option<crate::KeyNumber> {\n        use StructuredShortMessage::*;\n        match self {\n            NoteOff { key_number, .. } | NoteOn { key_number, .. } => Some(*key_number),\n            _ => None,\n        }\n    }")
m("c03_to_other_swaps", ["C03", "C01"], "src/short_message.rs", "        let bytes = self.to_bytes();\n        unsafe { O::from_bytes_unchecked(bytes) }", "        let bytes = self.to_bytes();\n        let bytes = if bytes.0 == 0xF2 { (bytes.0, bytes.2, bytes.1) } else { bytes };\n        unsafe { O::from_bytes_unchecked(bytes) }")
# ---- C04 / C05
m("c04_is_valid_off_by_one", ["C04", "C05"], "src/newtype_macros.rs", "number >= 0.into() && number <= $max.into()", "number >= 0.into() && number <= ($max + 1).into()")
m("c04_fromstr_no_range_check", ["C04", "C05"], "src/newtype_macros.rs", "                if !$name::is_valid(primitive) {\n                    return Err($crate::ParseIntError(()));\n                }\n                Ok($name(primitive))", "                Ok($name(primitive))")
m("c05_try_from_truncates_first", ["C04", "C05"], "src/newtype_macros.rs", """            fn try_from(value: $from) -> Result<Self, Self::Error> {
                if !Self::is_valid(value) {
                    return Err($crate::TryFromGreaterError(()));
                }
                Ok(Self(value as _))""", """            fn try_from(value: $from) -> Result<Self, Self::Error> {
                if !Self::is_valid(value as u16) {
                    return Err($crate::TryFromGreaterError(()));
                }
                Ok(Self(value as _))""")
m("c04_nostd_new_unchecked_again", ["C04"], "src/newtype_macros.rs", '#[cfg(not(feature = "std"))]\n                    {\n                        assert!', '#[cfg(feature = "no_std")]\n                    {\n                        assert!', "the original D3 defect")
# ---- C06
m("c06_program_change_data2", ["C06"], "src/short_message_factory.rs", "                build_status_byte(ShortMessageType::ProgramChange.into(), channel),\n                program_number,\n                U7::MIN,", "                build_status_byte(ShortMessageType::ProgramChange.into(), channel),\n                U7::MIN,\n                program_number,")
m("c06_spp_shift_8", ["C06"], "src/short_message_factory.rs", "                U7((position.get() & 0x7f) as u8),\n                U7((position.get() >> 7) as u8),", "                U7((position.get() & 0x7f) as u8),\n                U7(((position.get() >> 8) & 0x7f) as u8),")
m("c06_missing_category_assert", ["C06"], "src/short_message_factory.rs", "        assert_eq!(r#type.super_type(), FuzzyMessageSuperType::SystemCommon);\n", "")
m("c06_test_util_u7_unchecked", ["C06", "C04"], "src/test_util.rs", 'pub fn u7(value: u8) -> U7 {\n    value.try_into().expect("not a valid 7-bit integer")', 'pub fn u7(value: u8) -> U7 {\n    U7(value & 0xff)')
# ---- C07
m("c07_encoder_swaps_high_low", ["C07"], "src/control_change_14_bit_message.rs", "                self.msb_controller_number(),\n                extract_high_7_bit_value_from_14_bit_value(self.value),", "                self.msb_controller_number(),\n                extract_low_7_bit_value_from_14_bit_value(self.value),")
m("c07_ctor_accepts_32", ["C07"], "src/controller_number_mod.rs", "        if self.0 >= 32 {\n            return None;\n        }\n        Some(ControllerNumber(self.0 + 32))", "        if self.0 > 32 {\n            return None;\n        }\n        Some(ControllerNumber(self.0 + 32))")
# ---- C08
m("c08_clear_msb_after_report", ["C08"], "src/control_change_14_bit_message_scanner.rs", "        let value = build_14_bit_value_from_two_7_bit_values(value_msb, value_lsb);\n        Some(", "        let value = build_14_bit_value_from_two_7_bit_values(value_msb, value_lsb);\n        self.value_msb = None;\n        Some(")
m("c08_stale_msb_not_replaced", ["C08", "C07"], "src/control_change_14_bit_message_scanner.rs", "        self.msb_controller_number = Some(msb_controller_number);\n        self.value_msb = Some(value_msb);\n        None", "        if self.msb_controller_number.is_none() || self.msb_controller_number == Some(msb_controller_number) {\n            self.msb_controller_number = Some(msb_controller_number);\n            self.value_msb = Some(value_msb);\n        }\n        None")
m("c08_reset_forgets_value_only", ["C08", "C17"], "src/control_change_14_bit_message_scanner.rs", "    fn reset(&mut self) {\n        self.msb_controller_number = None;\n        self.value_msb = None;\n    }", "    fn reset(&mut self) {\n        self.value_msb = None;\n    }")
# ---- C09
m("c09_swap_98_99", ["C09"], "src/parameter_number_message.rs", "                NON_REGISTERED_PARAMETER_NUMBER_MSB\n            },\n            extract_high_7_bit_value_from_14_bit_value(self.number),", "                NON_REGISTERED_PARAMETER_NUMBER_LSB\n            },\n            extract_high_7_bit_value_from_14_bit_value(self.number),")
m("c09_lsb_first_emits_msb_first", ["C09", "C10"], "src/parameter_number_message.rs", "                    LsbFirst => {\n                        // Value LSB\n                        if self.is_14_bit {\n                            messages[i] = Some(self.build_data_entry_lsb_msg());\n                            i += 1;\n                        }\n                        // Value MSB\n                        messages[i] = Some(self.build_data_entry_msb_msg());", "                    LsbFirst => {\n                        // Value MSB\n                        messages[i] = Some(self.build_data_entry_msb_msg());\n                        i += 1;\n                        // Value LSB\n                        if self.is_14_bit {\n                            messages[i] = Some(self.build_data_entry_lsb_msg());\n                        }")
m("c09_increment_on_97", ["C09", "C10"], "src/parameter_number_message.rs", "messages[i] = Some(self.build_data_inc_dec_msg(controller_numbers::DATA_INCREMENT))", "messages[i] = Some(self.build_data_inc_dec_msg(controller_numbers::DATA_DECREMENT))")
# ---- C10 / C11
m("c10_number_lsb_keeps_value_lsb", ["C10", "C11"], "src/parameter_number_message_scanner.rs", "    ) -> Option<ParameterNumberMessage> {\n        self.reset_value();\n        self.number_lsb = Some(number_lsb);", "    ) -> Option<ParameterNumberMessage> {\n        self.number_lsb = Some(number_lsb);")
m("c11_registered_only_from_msb", ["C11", "C10"], "src/parameter_number_message_scanner.rs", "        self.number_lsb = Some(number_lsb);\n        self.is_registered = is_registered;", "        self.number_lsb = Some(number_lsb);")
m("c11_missing_half_as_zero", ["C11"], "src/parameter_number_message_scanner.rs", "        let number_lsb = self.number_lsb?;\n        let number_msb = self.number_msb?;", "        let number_lsb = self.number_lsb.unwrap_or(U7::MIN);\n        let number_msb = self.number_msb?;")
m("c11_v38_cleared_after_14bit", ["C11", "C10"], "src/parameter_number_message_scanner.rs", "        let number = self.build_number()?;\n        let msg = match self.value_lsb {", "        let number = self.build_number()?;\n        let msg = match self.value_lsb.take() {")
# ---- C12 / C13 / C14 (polling)
P = "src/polling_parameter_number_message_scanner.rs"
m("c13_timeout_le", ["C13"], P, "if state.arrival_time.elapsed() < self.timeout {", "if state.arrival_time.elapsed() <= self.timeout {")
m("c13_timeout_ignored", ["C13"], P, "            if state.arrival_time.elapsed() < self.timeout {\n                return None;\n            }\n", "")
m("c13_msb_msb_no_restamp", ["C13"], P, """                    Res {
                        next_state: ValuePending(ValuePendingState {
                            number_state: state.number_state,
                            arrival_time: Instant::now(),
                            first_value_byte: value_msb,
                            is_msb: true,
                        }),
                        result: Some(ParameterNumberMessage::seven_bit(""", """                    Res {
                        next_state: ValuePending(ValuePendingState {
                            number_state: state.number_state,
                            arrival_time: state.arrival_time,
                            first_value_byte: value_msb,
                            is_msb: true,
                        }),
                        result: Some(ParameterNumberMessage::seven_bit(""")
m("c14_poll_does_not_consume", ["C14", "C13"], P, "        self.state = res.next_state;\n        res.result\n    }\n\n    pub fn reset(&mut self) {", "        let _ = res.next_state;\n        res.result\n    }\n\n    pub fn reset(&mut self) {")
m("c17_polling_reset_loses_timeout", ["C17"], P, "    pub fn reset(&mut self) {\n        self.state = Default::default();\n    }", "    pub fn reset(&mut self) {\n        *self = Default::default();\n    }")
m("c12_fine_adjust_stale_lsb", ["C12", "C14"], P, "                        build_14_bit_value_from_two_7_bit_values(state.value_msb, value_lsb),\n                        state.number_state.is_registered,", "                        build_14_bit_value_from_two_7_bit_values(state.value_msb, state.value_lsb),\n                        state.number_state.is_registered,")
m("c12_fine_adjust_leaves_complete", ["C12"], P, """                Res {
                    next_state: FourteenBitValueComplete(FourteenBitValueCompleteState {
                        value_lsb,
                        ..*state
                    }),""", """                Res {
                    next_state: WaitingForFirstValueByte(state.number_state),""")
m("c14_incdec_drops_pending_entry", ["C14", "C12"], P, """                        result: [
                            Some(ParameterNumberMessage::seven_bit(
                                channel,
                                state.number_state.number(),
                                state.first_value_byte,
                                state.number_state.is_registered,
                                DataType::DataEntry,
                            )),
                            Some(ParameterNumberMessage::seven_bit(
                                channel,
                                state.number_state.number(),
                                value,
                                state.number_state.is_registered,
                                data_type,
                            )),
                        ],""", """                        result: [
                            Some(ParameterNumberMessage::seven_bit(
                                channel,
                                state.number_state.number(),
                                value,
                                state.number_state.is_registered,
                                data_type,
                            )),
                            None,
                        ],""")
m("c14_number_byte_drops_pending", ["C14", "C12"], P, "                        is_registered,\n                    }),\n                    result: state.resolve(channel),", "                        is_registered,\n                    }),\n                    result: None,")
m("c14_registered_from_first_number_byte", ["C14"], P, """                                msb: if state.is_msb { state_byte } else { byte },
                                lsb: if state.is_msb { byte } else { state_byte },
                                is_registered,""", """                                msb: if state.is_msb { state_byte } else { byte },
                                lsb: if state.is_msb { byte } else { state_byte },
                                is_registered: state.is_registered,""")
m("c13_lsb_reported_as_7bit", ["C13", "C14"], P, """            // [x, y, LSB]
            // We were waiting for a remaining MSB but none arrived. Invalid.
            None""", """            // [x, y, LSB]
            Some(ParameterNumberMessage::seven_bit(
                channel,
                self.number_state.number(),
                self.first_value_byte,
                self.number_state.is_registered,
                DataType::DataEntry,
            ))""")
# ---- C15
m("c15_cc14_channel_mod_8", ["C15"], "src/control_change_14_bit_message_scanner.rs", "self.scanner_by_channel[usize::from(channel)].feed(msg)", "self.scanner_by_channel[usize::from(channel) % 8].feed(msg)")
m("c15_poll_constant_index", ["C15"], P, "self.scanner_by_channel[usize::from(channel)].poll(channel)", "self.scanner_by_channel[usize::from(channel) & 0x7].poll(channel)")
m("c15_pn_report_channel_min", ["C15", "C11"], "src/parameter_number_message_scanner.rs", "            6 => self.process_value_msb(channel, control_value),", "            6 => self.process_value_msb(if channel.get() == 13 { Channel::MIN } else { channel }, control_value),")
# ---- C16
m("c16_note_on_resets_pending", ["C16"], P, "                _ => [None, None],\n            },\n            _ => [None, None],\n        }\n    }\n\n    pub fn poll", "                _ => [None, None],\n            },\n            StructuredShortMessage::NoteOn { .. } => {\n                if let State::ValuePending(s) = &self.state {\n                    self.state = State::WaitingForFirstValueByte(s.number_state);\n                }\n                [None, None]\n            }\n            _ => [None, None],\n        }\n    }\n\n    pub fn poll")
m("c16_cc14_accepts_64_95_as_lsb", ["C16", "C08"], "src/control_change_14_bit_message_scanner.rs", "                (0..=31) => self.process_value_msb(controller_number, control_value),", "                (0..=31) | 88 => self.process_value_msb(controller_number, control_value),")
m("c16_predicate_missing_96_97", ["C16"], "src/controller_number_mod.rs", "matches!(self.0, 98 | 99 | 100 | 101 | 38 | 6 | 96 | 97)", "matches!(self.0, 98 | 99 | 100 | 101 | 38 | 6)")
m("c16_pn_cc7_clears_value_lsb", ["C16", "C11"], "src/parameter_number_message_scanner.rs", "                97 => self.process_value_inc_dec(channel, DataType::DataDecrement, control_value),\n                _ => None,", "                97 => self.process_value_inc_dec(channel, DataType::DataDecrement, control_value),\n                7 => {\n                    self.value_lsb = None;\n                    None\n                }\n                _ => None,")
# ---- C17
m("c17_pn_reset_keeps_registered", ["C17"], "src/parameter_number_message_scanner.rs", "        self.number_lsb = None;\n        self.is_registered = false;\n        self.reset_value();", "        self.number_lsb = None;\n        self.reset_value();")
m("c17_reset_skips_channel_15", ["C17"], "src/parameter_number_message_scanner.rs", "        for p in self.scanner_by_channel.iter_mut() {\n            p.reset();\n        }", "        for p in self.scanner_by_channel.iter_mut().take(15) {\n            p.reset();\n        }")
# ---- C18
m("c18_vec_in_encoder", ["C18"], "src/control_change_14_bit_message.rs", "    pub fn to_short_messages<T: ShortMessageFactory>(&self) -> [T; 2] {\n        [", "    pub fn to_short_messages<T: ShortMessageFactory>(&self) -> [T; 2] {\n        let scratch: Vec<u16> = vec![self.value.get(); 2];\n        let _ = core::hint::black_box(&scratch);\n        [", "needs std; only std build")
m("c18_arith_panic_at_127", ["C18"], "src/parameter_number_message_scanner.rs", "    fn process_value_lsb(&mut self, value_lsb: U7) -> Option<ParameterNumberMessage> {\n        self.value_lsb = Some(value_lsb);", "    fn process_value_lsb(&mut self, value_lsb: U7) -> Option<ParameterNumberMessage> {\n        let _check = U7::new(value_lsb.get() + 1).get() - 1;\n        self.value_lsb = Some(value_lsb);")
# ---- C19
m("c19_newtype_no_try_from", ["C19"], "src/newtype_macros.rs", '            derive(serde::Serialize, serde::Deserialize),\n            serde(try_from = "u16")', '            derive(serde::Serialize, serde::Deserialize)')
m("c19_raw_plain_derive_again", ["C19"], "src/raw_short_message.rs", '    derive(Serialize, Deserialize),\n    serde(try_from = "(u8, U7, U7)")', '    derive(Serialize, Deserialize)', "the original D4a defect")

def main():
    os.makedirs(OUT, exist_ok=True)
    for f in os.listdir(OUT):
        os.remove(os.path.join(OUT, f))
    assert subprocess.run(["git", "-C", R, "status", "--porcelain"], capture_output=True, text=True).stdout.strip() == "", "/repo not clean"
    idx = []
    for name, props, file, old, new, note in M:
        p = os.path.join(R, file)
        s = open(p).read()
        if s.count(old) != 1:
            print("SKIP %s: pattern occurs %d times" % (name, s.count(old)))
            continue
        open(p, "w").write(s.replace(old, new))
        d = subprocess.run(["git", "-C", R, "diff"], capture_output=True, text=True).stdout
        subprocess.run(["git", "-C", R, "checkout", "--", "."], check=True)
        open(os.path.join(OUT, name + ".patch"), "w").write(d)
        idx.append({"name": name, "expected_to_break": props, "file": file, "note": note})
    json.dump(idx, open(os.path.join(OUT, "index.json"), "w"), indent=1)
    print("wrote %d mutants" % len(idx))
main()
