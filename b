#!/bin/sh
# build helper: compact error output
cd /verif/harness && CARGO_TARGET_DIR=/verif/target/${1:-std-dbg} RUSTFLAGS="--cfg helgoboss_midi_verif" cargo build --offline $2 $3 $4 2>&1 | grep -E "^(error|warning: unus)|Finished" -A9 | head -${N:-60}
