//! Events, plain-data views of reported messages, and the online monitors (trace checkers)
//! for the two clock-free scanners. Each monitor owns a copy of the *real* scanner, applies
//! every event to it through the API boundary and judges the result against a history
//! function written from the property statements (C07/C08/C10/C11/C15/C16/C17).

use crate::mon::api;
use crate::report::Report;
use crate::spec::*;
use helgoboss_midi::*;
use serde_json::{json, Value};

#[derive(Copy, Clone, PartialEq, Eq, Debug, Hash)]
pub enum Ev {
    /// a short message (status, data 1, data 2)
    Msg(u8, u8, u8),
    /// poll(channel) — polling scanner only
    Poll(u8),
    /// advance the mock clock by n nanoseconds
    Tick(u64),
    /// compound step: advance the clock by n nanoseconds, then poll(channel) — lets an explorer
    /// apply a poll right after a specific (large) clock step from every state
    TickPoll(u64, u8),
    Reset,
}

impl Ev {
    pub fn cc(c: u8, n: u8, v: u8) -> Ev {
        Ev::Msg(0xB0 | c, n, v)
    }
    pub fn render(&self) -> String {
        match self {
            Ev::Msg(s, a, b) => format!("{:02X} {:02X} {:02X}", s, a, b),
            Ev::Poll(c) => format!("poll {}", c),
            Ev::Tick(n) => format!("tick {}", n),
            Ev::TickPoll(n, c) => format!("tickpoll {} {}", n, c),
            Ev::Reset => "reset".to_string(),
        }
    }
    pub fn parse(s: &str) -> Option<Ev> {
        let p: Vec<&str> = s.split_whitespace().collect();
        match p.as_slice() {
            ["reset"] => Some(Ev::Reset),
            ["poll", c] => c.parse().ok().map(Ev::Poll),
            ["tick", n] => n.parse().ok().map(Ev::Tick),
            ["tickpoll", n, c] => Some(Ev::TickPoll(n.parse().ok()?, c.parse().ok()?)),
            [a, b, c] => Some(Ev::Msg(
                u8::from_str_radix(a, 16).ok()?,
                u8::from_str_radix(b, 16).ok()?,
                u8::from_str_radix(c, 16).ok()?,
            )),
            _ => None,
        }
    }
    /// (channel, controller, value) if this is a Control Change
    #[inline]
    pub fn as_cc(&self) -> Option<(u8, u8, u8)> {
        match self {
            Ev::Msg(s, a, b) if s & 0xF0 == 0xB0 => Some((s & 0x0F, *a, *b)),
            _ => None,
        }
    }
    /// channel of a channel message
    #[inline]
    pub fn channel(&self) -> Option<u8> {
        match self {
            Ev::Msg(s, _, _) if (0x80..0xF0).contains(s) => Some(s & 0x0F),
            Ev::Poll(c) | Ev::TickPoll(_, c) => Some(*c),
            _ => None,
        }
    }
}

#[inline]
pub fn raw(s: u8, a: u8, b: u8) -> RawShortMessage {
    RawShortMessage::from_bytes((s, u7(a), u7(b))).expect("harness builds only valid messages")
}

/// Plain view of a ControlChange14BitMessage.
#[derive(Copy, Clone, PartialEq, Eq, Debug)]
pub struct C14M {
    pub ch: u8,
    pub msb_cn: u8,
    pub value: u16,
}
pub fn c14m(m: &ControlChange14BitMessage) -> C14M {
    C14M {
        ch: m.channel().get(),
        msb_cn: m.msb_controller_number().get(),
        value: m.value().get(),
    }
}

/// Plain view of a ParameterNumberMessage.
#[derive(Copy, Clone, PartialEq, Eq, Debug, Hash)]
pub struct PnM {
    pub ch: u8,
    pub number: u16,
    pub value: u16,
    pub registered: bool,
    pub is14: bool,
    /// 0 data entry, 1 increment, 2 decrement
    pub dt: u8,
}
pub fn pnm(m: &ParameterNumberMessage) -> PnM {
    PnM {
        ch: m.channel().get(),
        number: m.number().get(),
        value: m.value().get(),
        registered: m.is_registered(),
        is14: m.is_14_bit(),
        dt: match m.data_type() {
            DataType::DataEntry => 0,
            DataType::DataIncrement => 1,
            DataType::DataDecrement => 2,
        },
    }
}
impl PnM {
    pub fn json(&self) -> Value {
        let dt = ["DataEntry", "DataIncrement", "DataDecrement"][self.dt as usize];
        json!({"ch":self.ch,"number":self.number,"value":self.value,"registered":self.registered,"is_14_bit":self.is14,
               "data_type": dt})
    }
    /// builds the crate value through the public constructors
    pub fn build(&self) -> ParameterNumberMessage {
        let c = ch(self.ch);
        let n = u14(self.number);
        match (self.registered, self.is14, self.dt) {
            (false, true, _) => ParameterNumberMessage::non_registered_14_bit(c, n, u14(self.value)),
            (true, true, _) => ParameterNumberMessage::registered_14_bit(c, n, u14(self.value)),
            (false, false, 0) => ParameterNumberMessage::non_registered_7_bit(c, n, u7(self.value as u8)),
            (true, false, 0) => ParameterNumberMessage::registered_7_bit(c, n, u7(self.value as u8)),
            (false, false, 1) => ParameterNumberMessage::non_registered_increment(c, n, u7(self.value as u8)),
            (true, false, 1) => ParameterNumberMessage::registered_increment(c, n, u7(self.value as u8)),
            (false, false, _) => ParameterNumberMessage::non_registered_decrement(c, n, u7(self.value as u8)),
            (true, false, _) => ParameterNumberMessage::registered_decrement(c, n, u7(self.value as u8)),
        }
    }
}

pub fn history_json(scanner: &str, timeout_ns: Option<u64>, path: &dyn Fn() -> Vec<String>, expected: Value, got: Value) -> Value {
    json!({"kind":"history","scanner":scanner,"timeout_ns":timeout_ns,"events":path(),"expected":expected,"got":got})
}

/// Sets the calling thread's mock clock (std builds: the library's clock hook; a no_std build
/// has no clock to drive). The two clock-free scanners must not care what it says.
#[inline]
pub fn set_clock(_now: u64) {
    #[cfg(feature = "std")]
    helgoboss_midi::verif_hooks::set_mock_time(_now);
}

thread_local! {
    static CONSTRUCTIONS: std::cell::Cell<u32> = std::cell::Cell::new(0);
    static FORCE_CONSTRUCTION: std::cell::Cell<Option<bool>> = std::cell::Cell::new(None);
}

/// Every other monitor creates its scanner with `Default::default()` instead of `new()` (the
/// statements speak about scanners, however they were created). Replays force one or the other.
pub fn construct_by_default() -> bool {
    if let Some(f) = FORCE_CONSTRUCTION.with(|c| c.get()) {
        return f;
    }
    CONSTRUCTIONS.with(|c| {
        let n = c.get();
        c.set(n.wrapping_add(1));
        n % 2 == 1
    })
}

pub fn force_construction(by_default: Option<bool>) {
    FORCE_CONSTRUCTION.with(|c| c.set(by_default));
}

/// clock steps used to show that the clock-free scanners do not depend on time: 1 ns, around
/// 1 s, just past 2^32 ns / 1 h / 2^32 us / 2^32 ms, 400 days
pub const TIME_SHIFTS: [u64; 8] = [
    1,
    999_999_999,
    1_000_000_001,
    (1u64 << 32) + 1,
    3_600_000_000_001,
    (1u64 << 32) * 1_000 + 1,
    (1u64 << 32) * 1_000_000 + 1,
    400 * 86_400_000_000_000,
];

// =====================================================================================
// 14-bit Control Change scanner monitor
// =====================================================================================

#[derive(Clone)]
pub struct Cc14Mon {
    pub real: ControlChange14BitMessageScanner,
    /// per channel: most recent CC with controller number < 32 since creation/reset
    pub last_msb: [Option<(u8, u8)>; 16],
    /// mock clock (advanced by Tick events; the scanner must not care)
    pub now: u64,
    rot: u8,
}

impl Cc14Mon {
    pub fn new() -> Self {
        set_clock(0);
        let real = if construct_by_default() {
            api("ControlChange14BitMessageScanner::default", ControlChange14BitMessageScanner::default).unwrap_or_else(ControlChange14BitMessageScanner::new)
        } else {
            ControlChange14BitMessageScanner::new()
        };
        Cc14Mon {
            real,
            last_msb: [None; 16],
            now: 0,
            rot: 0,
        }
    }

    /// history function: what must be reported for this event
    pub fn expected(&self, ev: &Ev) -> Option<C14M> {
        let (c, n, v) = ev.as_cc()?;
        if (32..=63).contains(&n) {
            if let Some((mn, mv)) = self.last_msb[c as usize] {
                if mn == n - 32 {
                    return Some(C14M {
                        ch: c,
                        msb_cn: mn,
                        value: mv as u16 * 128 + v as u16,
                    });
                }
            }
        }
        None
    }

    pub fn apply(&mut self, ev: &Ev, rep: &mut Report, path: &dyn Fn() -> Vec<String>) -> Option<C14M> {
        match ev {
            Ev::Msg(s, a, b) => {
                let m = raw(*s, *a, *b);
                let before = self.real;
                let exp = self.expected(ev);
                let real = &mut self.real;
                set_clock(self.now);
                let got = api("ControlChange14BitMessageScanner::feed", || real.feed(&m));
                let Some(got) = got else {
                    crate::viol!(rep, 
                        "C08:panic:feed",
                        format!("feed({}) panicked", ev.render()),
                        history_json("cc14", None, path, json!(format!("{:?}", exp)), json!("panic")),
                    );
                    return None;
                };
                let gotp = got.as_ref().map(c14m);
                rep.count("cc14_feeds", 1);
                // carrier twin: the same message as StructuredShortMessage (and as a foreign
                // implementor) fed to a copy of the prior state must give the same result and state
                {
                    let mut twin = before;
                    let g2 = api("ControlChange14BitMessageScanner::feed", || {
                        let st = m.to_structured();
                        twin.feed(&st)
                    });
                    let mut twin3 = before;
                    let g3 = api("ControlChange14BitMessageScanner::feed", || {
                        let fo: crate::carriers::Foreign = m.to_other();
                        twin3.feed(&fo)
                    });
                    if g2 != Some(got) || twin != self.real || g3 != Some(got) || twin3 != self.real {
                        crate::viol!(
                            rep,
                            "C08:result-depends-on-message-representation",
                            format!("feed({}) returned {:?} for RawShortMessage, {:?} for StructuredShortMessage, {:?} for a foreign implementor (states equal: {} / {})", ev.render(), gotp, g2.map(|x| x.as_ref().map(c14m)), g3.map(|x| x.as_ref().map(c14m)), twin == self.real, twin3 == self.real),
                            history_json("cc14", None, path, json!(format!("{:?}", gotp)), json!("differs by carrier"))
                        );
                    }
                }
                // time twin: the same message fed to a copy of the prior state at a later instant
                // (a clock-free scanner reports the same whatever the clock says)
                #[cfg(feature = "std")]
                {
                    self.rot = self.rot.wrapping_add(1);
                    let delta = TIME_SHIFTS[(self.rot % 8) as usize];
                    let mut twin = before;
                    set_clock(self.now.saturating_add(delta));
                    let g = api("ControlChange14BitMessageScanner::feed", || twin.feed(&m));
                    set_clock(self.now);
                    rep.count("cc14_time_shifted_feeds", 1);
                    if g != Some(got) {
                        crate::viol!(
                            rep,
                            "C08:feed-result-depends-on-time",
                            format!("feed({}) returned {:?} at t={} ns but {:?} when the same scanner state was fed {} ns later", ev.render(), gotp, self.now, g.map(|x| x.as_ref().map(c14m)), delta),
                            history_json("cc14", None, path, json!(format!("{:?}", gotp)), json!(format!("{} ns later: {:?}", delta, g.map(|x| x.as_ref().map(c14m)))))
                        );
                    }
                }
                if gotp.is_some() {
                    rep.count("cc14_reports_observed", 1);
                }
                if gotp != exp {
                    let class = match (&exp, &gotp) {
                        (None, Some(_)) => "spurious-report",
                        (Some(_), None) => "missing-report",
                        _ => "wrong-report",
                    };
                    crate::viol!(rep, 
                        format!("C08:{}", class),
                        format!("feed({}) returned {:?}, justified by the history: {:?}", ev.render(), gotp, exp),
                        history_json("cc14", None, path, json!(format!("{:?}", exp)), json!(format!("{:?}", gotp))),
                    );
                }
                if let (Some(g), Some(c)) = (&gotp, ev.channel()) {
                    if g.ch != c {
                        crate::viol!(rep, 
                            "C15:cc14:report-on-wrong-channel",
                            format!("feed({}) reported {:?}", ev.render(), g),
                            history_json("cc14", None, path, json!(c), json!(g.ch)),
                        );
                    }
                }
                // C16: non-contributing messages are transparent
                let contributing = matches!(ev.as_cc(), Some((_, n, _)) if n < 64);
                if !contributing {
                    rep.count("cc14_noncontributing_feeds", 1);
                    if gotp.is_some() || self.real != before {
                        crate::viol!(rep, 
                            "C16:cc14:not-transparent",
                            format!(
                                "non-contributing message {} returned {:?}; state changed: {}",
                                ev.render(),
                                gotp,
                                self.real != before
                            ),
                            history_json("cc14", None, path, json!("None, equal state"), json!(format!("{:?}", gotp))),
                        );
                    }
                }
                // update history function
                if let Some((c, n, v)) = ev.as_cc() {
                    if n < 32 {
                        self.last_msb[c as usize] = Some((n, v));
                    }
                }
                gotp
            }
            Ev::Tick(n) | Ev::TickPoll(n, _) => {
                self.now = self.now.saturating_add(*n);
                set_clock(self.now);
                rep.count("cc14_clock_steps", 1);
                None
            }
            Ev::Reset => {
                let real = &mut self.real;
                set_clock(self.now);
                let r = api("ControlChange14BitMessageScanner::reset", || real.reset());
                self.last_msb = [None; 16];
                rep.count("cc14_resets", 1);
                let fresh = api("ControlChange14BitMessageScanner::new", ControlChange14BitMessageScanner::new);
                if r.is_none() || fresh != Some(self.real) {
                    crate::viol!(rep, 
                        "C17:cc14:reset-not-equal-new",
                        "after reset() the scanner does not compare equal to a new one".to_string(),
                        history_json("cc14", None, path, json!("== new()"), json!(format!("{:?}", self.real))),
                    );
                }
                None
            }
            _ => None,
        }
    }
}

// =====================================================================================
// (N)RPN scanner monitor (non-polling)
// =====================================================================================

#[derive(Copy, Clone, Default, PartialEq, Eq, Debug, Hash)]
pub struct PnHist {
    pub msb: Option<u8>,
    pub lsb: Option<u8>,
    /// kind of the most recent number byte
    pub registered: bool,
    /// value of the most recent controller 38 received after the most recent number byte
    pub v38: Option<u8>,
}

impl PnHist {
    pub fn number(&self) -> Option<u16> {
        Some(self.msb? as u16 * 128 + self.lsb? as u16)
    }
}

#[derive(Clone)]
pub struct PnMon {
    pub real: ParameterNumberMessageScanner,
    pub h: [PnHist; 16],
    /// mock clock (advanced by Tick events; the scanner must not care)
    pub now: u64,
    rot: u8,
}

impl PnMon {
    pub fn new() -> Self {
        set_clock(0);
        let real = if construct_by_default() {
            api("ParameterNumberMessageScanner::default", ParameterNumberMessageScanner::default).unwrap_or_else(ParameterNumberMessageScanner::new)
        } else {
            ParameterNumberMessageScanner::new()
        };
        PnMon {
            real,
            h: [PnHist::default(); 16],
            now: 0,
            rot: 0,
        }
    }

    pub fn expected(&self, ev: &Ev) -> Option<PnM> {
        let (c, n, v) = ev.as_cc()?;
        let h = &self.h[c as usize];
        let number = h.number()?;
        match n {
            6 => Some(match h.v38 {
                Some(l) => PnM {
                    ch: c,
                    number,
                    value: v as u16 * 128 + l as u16,
                    registered: h.registered,
                    is14: true,
                    dt: 0,
                },
                None => PnM {
                    ch: c,
                    number,
                    value: v as u16,
                    registered: h.registered,
                    is14: false,
                    dt: 0,
                },
            }),
            96 | 97 => Some(PnM {
                ch: c,
                number,
                value: v as u16,
                registered: h.registered,
                is14: false,
                dt: if n == 96 { 1 } else { 2 },
            }),
            _ => None,
        }
    }

    pub fn update(&mut self, ev: &Ev) {
        if let Some((c, n, v)) = ev.as_cc() {
            let h = &mut self.h[c as usize];
            match n {
                98 | 100 => {
                    h.lsb = Some(v);
                    h.registered = n == 100;
                    h.v38 = None;
                }
                99 | 101 => {
                    h.msb = Some(v);
                    h.registered = n == 101;
                    h.v38 = None;
                }
                38 => h.v38 = Some(v),
                _ => {}
            }
        }
    }

    pub fn apply(&mut self, ev: &Ev, rep: &mut Report, path: &dyn Fn() -> Vec<String>) -> Option<PnM> {
        match ev {
            Ev::Msg(s, a, b) => {
                let m = raw(*s, *a, *b);
                let before = self.real;
                let exp = self.expected(ev);
                let real = &mut self.real;
                set_clock(self.now);
                let got = api("ParameterNumberMessageScanner::feed", || real.feed(&m));
                let Some(got) = got else {
                    crate::viol!(rep, 
                        "C11:panic:feed",
                        format!("feed({}) panicked", ev.render()),
                        history_json("pn", None, path, json!(format!("{:?}", exp)), json!("panic")),
                    );
                    return None;
                };
                let gotp = got.as_ref().map(pnm);
                rep.count("pn_feeds", 1);
                {
                    let mut twin = before;
                    let g2 = api("ParameterNumberMessageScanner::feed", || {
                        let st = m.to_structured();
                        twin.feed(&st)
                    });
                    let mut twin3 = before;
                    let g3 = api("ParameterNumberMessageScanner::feed", || {
                        let fo: crate::carriers::Foreign = m.to_other();
                        twin3.feed(&fo)
                    });
                    if g2 != Some(got) || twin != self.real || g3 != Some(got) || twin3 != self.real {
                        crate::viol!(
                            rep,
                            "C11:result-depends-on-message-representation",
                            format!("feed({}) returned {:?} for RawShortMessage, {:?} for StructuredShortMessage, {:?} for a foreign implementor (states equal: {} / {})", ev.render(), gotp, g2.map(|x| x.as_ref().map(pnm)), g3.map(|x| x.as_ref().map(pnm)), twin == self.real, twin3 == self.real),
                            history_json("pn", None, path, json!(format!("{:?}", gotp)), json!("differs by carrier"))
                        );
                    }
                }
                // time twin: the same message fed to a copy of the prior state at a later instant
                #[cfg(feature = "std")]
                {
                    self.rot = self.rot.wrapping_add(1);
                    let delta = TIME_SHIFTS[(self.rot % 8) as usize];
                    let mut twin = before;
                    set_clock(self.now.saturating_add(delta));
                    let g = api("ParameterNumberMessageScanner::feed", || twin.feed(&m));
                    set_clock(self.now);
                    rep.count("pn_time_shifted_feeds", 1);
                    if g != Some(got) {
                        crate::viol!(
                            rep,
                            "C11:feed-result-depends-on-time",
                            format!("feed({}) returned {:?} at t={} ns but {:?} when the same scanner state was fed {} ns later", ev.render(), gotp, self.now, g.map(|x| x.as_ref().map(pnm)), delta),
                            history_json("pn", None, path, json!(format!("{:?}", gotp)), json!(format!("{} ns later: {:?}", delta, g.map(|x| x.as_ref().map(pnm)))))
                        );
                    }
                }
                if let Some(g) = &gotp {
                    rep.count(
                        match (g.is14, g.dt) {
                            (true, _) => "pn_reports_14bit",
                            (false, 0) => "pn_reports_7bit",
                            (false, 1) => "pn_reports_increment",
                            _ => "pn_reports_decrement",
                        },
                        1,
                    );
                }
                if gotp != exp {
                    let class = match (&exp, &gotp) {
                        (None, Some(_)) => "spurious-report",
                        (Some(_), None) => "missing-report",
                        (Some(e), Some(g)) => {
                            if e.number != g.number {
                                "wrong-number"
                            } else if e.registered != g.registered {
                                "wrong-registered-flag"
                            } else if e.is14 != g.is14 {
                                "wrong-resolution"
                            } else if e.value != g.value {
                                "wrong-value"
                            } else if e.dt != g.dt {
                                "wrong-data-type"
                            } else {
                                "wrong-channel"
                            }
                        }
                        _ => unreachable!(),
                    };
                    crate::viol!(rep, 
                        format!("C11:{}", class),
                        format!("feed({}) returned {:?}, justified by the history: {:?}", ev.render(), gotp, exp),
                        history_json("pn", None, path, json!(format!("{:?}", exp)), json!(format!("{:?}", gotp))),
                    );
                }
                if let (Some(g), Some(c)) = (&gotp, ev.channel()) {
                    if g.ch != c {
                        crate::viol!(rep, 
                            "C15:pn:report-on-wrong-channel",
                            format!("feed({}) reported {:?}", ev.render(), g),
                            history_json("pn", None, path, json!(c), json!(g.ch)),
                        );
                    }
                }
                let contributing = matches!(ev.as_cc(), Some((_, n, _)) if is_pn_controller(n));
                if !contributing {
                    rep.count("pn_noncontributing_feeds", 1);
                    if gotp.is_some() || self.real != before {
                        crate::viol!(rep, 
                            "C16:pn:not-transparent",
                            format!(
                                "non-contributing message {} returned {:?}; state changed: {}",
                                ev.render(),
                                gotp,
                                self.real != before
                            ),
                            history_json("pn", None, path, json!("None, equal state"), json!(format!("{:?}", gotp))),
                        );
                    }
                }
                self.update(ev);
                gotp
            }
            Ev::Tick(n) | Ev::TickPoll(n, _) => {
                self.now = self.now.saturating_add(*n);
                set_clock(self.now);
                rep.count("pn_clock_steps", 1);
                None
            }
            Ev::Reset => {
                let real = &mut self.real;
                set_clock(self.now);
                let r = api("ParameterNumberMessageScanner::reset", || real.reset());
                self.h = [PnHist::default(); 16];
                rep.count("pn_resets", 1);
                let fresh = api("ParameterNumberMessageScanner::new", ParameterNumberMessageScanner::new);
                if r.is_none() || fresh != Some(self.real) {
                    crate::viol!(rep, 
                        "C17:pn:reset-not-equal-new",
                        "after reset() the scanner does not compare equal to a new one".to_string(),
                        history_json("pn", None, path, json!("== new()"), json!(format!("{:?}", self.real))),
                    );
                }
                None
            }
            _ => None,
        }
    }
}

/// Writes the Debug rendering of `v` into `scratch` (reusing its capacity) — used for state keys.
pub fn debug_into<T: std::fmt::Debug>(v: &T, scratch: &mut String) {
    use std::fmt::Write;
    scratch.clear();
    let _ = write!(scratch, "{:?}", v);
}
