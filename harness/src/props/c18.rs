//! C18 — real-time safety: no heap allocation and no panic on valid input.
//! Runs the workloads of all other properties under the counting global allocator and the
//! panic monitor (decided here: any allocation inside a non-panicking API region, any
//! unexpected panic), plus formatting / parsing / error paths into stack buffers.

use crate::mon::{api, api_probe};
use crate::report::Report;
use crate::spec::*;
use crate::util::{Cfg, StackBuf};
use helgoboss_midi::*;
use serde_json::json;
use std::fmt::Write as _;

/// API entry points that must have been exercised for the verdict to be "held"
pub const REQUIRED_ENTRIES: &[&str] = &[
    "ShortMessageFactory::from_bytes",
    "ShortMessage::to_bytes+getters",
    "ShortMessage::{type,super_type,main_category,channel,accessors,is_note*,to_structured}",
    "ShortMessage::to_other / ShortMessageFactory::from_other / to_structured",
    "TryFrom/From <source> for <restricted integer>",
    "From<restricted integer> for <target>",
    "<restricted integer>::new",
    "str::parse::<restricted integer>",
    "Display for <restricted integer>",
    "Ord/PartialOrd/Eq for <restricted integer>",
    "ShortMessageFactory::note_on",
    "ShortMessageFactory::pitch_bend_change",
    "ShortMessageFactory::channel_message",
    "ShortMessageFactory::system_common_message",
    "ShortMessageFactory::system_real_time_message",
    "test_util::note_on",
    "ControlChange14BitMessage::{new,accessors,to_short_messages,into}",
    "ControlChange14BitMessageScanner::feed",
    "ControlChange14BitMessageScanner::reset",
    "ParameterNumberMessage::{constructor,accessors,to_short_messages,into}",
    "ParameterNumberMessageScanner::feed",
    "ParameterNumberMessageScanner::reset",
    "Debug/Display formatting into a stack buffer",
];

#[cfg(feature = "std")]
pub const REQUIRED_ENTRIES_STD: &[&str] = &[
    "PollingParameterNumberMessageScanner::feed",
    "PollingParameterNumberMessageScanner::poll",
    "PollingParameterNumberMessageScanner::reset",
    "PollingParameterNumberMessageScanner::new",
];

fn formatting(rep: &mut Report) {
    let mut buf: StackBuf<16384> = StackBuf::new();
    macro_rules! fmt {
        ($what:expr, $($arg:tt)*) => {{
            buf.clear();
            let r = api("Debug/Display formatting into a stack buffer", || write!(buf, $($arg)*).is_ok());
            rep.evaluations += 1;
            if r != Some(true) || buf.len == 0 || buf.overflow {
                crate::viol!(rep, 
                    format!("C18:formatting:{}", $what),
                    format!("formatting {} failed or produced nothing (overflow: {})", $what, buf.overflow),
                    json!({"kind":"formatting","what":$what}),
                );
            }
        }};
    }
    // Formatting of messages, scanners and error values is NOT among the operations the statement
    // lists ("parsing and formatting of the integer types"): it is exercised and must not panic,
    // but an allocation there is not judged.
    macro_rules! fmt_unjudged {
        ($what:expr, $($arg:tt)*) => {{
            buf.clear();
            let before = (crate::mon::alloc_calls(), crate::mon::alloc_bytes());
            let r = std::panic::catch_unwind(std::panic::AssertUnwindSafe(|| write!(buf, $($arg)*).is_ok()));
            let _ = before;
            rep.evaluations += 1;
            rep.count("formatting_not_covered_by_the_statement_exercised", 1);
            if !matches!(r, Ok(true)) {
                rep.count("formatting_not_covered_by_the_statement_failed", 1);
            }
        }};
    }
    for v in [0u8, 1, 99, 127] {
        fmt!("U7 Display", "{}", u7(v));
        fmt!("U7 Debug", "{:?}", u7(v));
        fmt!("KeyNumber Display", "{}", kn(v));
        fmt!("ControllerNumber Display", "{}", cn(v));
    }
    for v in [0u16, 127, 128, 16383] {
        fmt!("U14 Display", "{}", u14(v));
        fmt!("U14 Debug", "{:?}", u14(v));
    }
    fmt!("Channel Display", "{}", ch(15));
    fmt!("U4 Display", "{}", u4(15));
    for (s, a, b) in [(0x90u8, 60u8, 100u8), (0xB3, 120, 0), (0xE1, 1, 2), (0xF1, 0x75, 0), (0xF2, 3, 4), (0xFF, 0, 0)] {
        let r = RawShortMessage::from_bytes((s, u7(a), u7(b))).unwrap();
        fmt_unjudged!("RawShortMessage Debug", "{:?}", r);
        fmt_unjudged!("StructuredShortMessage Debug", "{:?}", r.to_structured());
        fmt_unjudged!("ShortMessageType Debug", "{:?}", r.r#type());
        fmt_unjudged!("MessageSuperType Debug", "{:?} {:?}", r.super_type(), r.main_category());
    }
    fmt_unjudged!("ControlChange14BitMessage Debug", "{:?}", ControlChange14BitMessage::new(ch(1), cn(2), u14(3)));
    fmt_unjudged!("ParameterNumberMessage Debug", "{:?}", ParameterNumberMessage::registered_14_bit(ch(1), u14(2), u14(3)));
    fmt_unjudged!("ControlChange14BitMessageScanner Debug", "{:?}", ControlChange14BitMessageScanner::new());
    fmt_unjudged!("ParameterNumberMessageScanner Debug", "{:?}", ParameterNumberMessageScanner::new());
    #[cfg(feature = "std")]
    {
        let mut sc = PollingParameterNumberMessageScanner::new(std::time::Duration::from_millis(3));
        for (n, v) in [(99u8, 1u8), (98, 2), (6, 3)] {
            let _ = sc.feed(&RawShortMessage::control_change(ch(0), cn(n), u7(v)));
        }
        fmt_unjudged!("PollingParameterNumberMessageScanner Debug", "{:?}", sc);
    }
    // error values: produced by failing conversions / parsing, then formatted
    let e1 = api("TryFrom/From <source> for <restricted integer>", || U7::try_from(200u8).err());
    if let Some(Some(e)) = e1 {
        fmt_unjudged!("TryFromGreaterError Display", "{} / {:?}", e, e);
    } else {
        crate::viol!(rep, "C18:error-path:TryFromGreaterError", "U7::try_from(200u8) did not fail".to_string(), json!({"kind":"error-path"}));
    }
    for s in ["", "abc", "128", "-1", "99999999999999999999999"] {
        let e = api("str::parse::<restricted integer>", || s.parse::<U7>().err());
        if let Some(Some(e)) = e {
            fmt_unjudged!("ParseIntError Display", "{} / {:?}", e, e);
        } else {
            crate::viol!(rep, "C18:error-path:ParseIntError", format!("{:?}.parse::<U7>() did not fail", s), json!({"kind":"error-path"}));
        }
    }
    let e = api("ShortMessageFactory::from_bytes", || RawShortMessage::from_bytes((5, u7(0), u7(0))).err());
    if let Some(Some(e)) = e {
        fmt_unjudged!("FromBytesError Display", "{} / {:?}", e, e);
    } else {
        crate::viol!(rep, "C18:error-path:FromBytesError", "from_bytes((5,..)) did not fail".to_string(), json!({"kind":"error-path"}));
    }
    // the documented panics fire (probed; they are the only sanctioned ones)
    let probes: [(&str, Box<dyn Fn() + std::panic::RefUnwindSafe>); 4] = [
        ("U7::new(128)", Box::new(|| { let _ = U7::new(128); })),
        ("ControlChange14BitMessage::new(cn 32)", Box::new(|| { let _ = ControlChange14BitMessage::new(ch(0), cn(32), u14(0)); })),
        ("channel_message(TimingClock)", Box::new(|| { let _ = RawShortMessage::channel_message(ShortMessageType::TimingClock, ch(0), u7(0), u7(0)); })),
        ("test_util::u7(200)", Box::new(|| { let _ = helgoboss_midi::test_util::u7(200); })),
    ];
    for (name, f) in probes.iter().filter(|_| !crate::mon::ABORT_BUILD) {
        let r = api_probe("documented panic probes", || f());
        rep.evaluations += 1;
        if r.is_ok() {
            crate::viol!(rep, 
                format!("C18:documented-panic-missing:{}", name),
                format!("{} did not panic although the documentation says it does", name),
                json!({"kind":"documented-panic","call":name}),
            );
        } else {
            crate::mon::note_expected_panic("documented panic probes");
        }
    }
}

pub fn run(cfg: &Cfg, rep: &mut Report) {
    rep.rule("the workloads of all other properties (C01-C17; quick: reduced sizes, thorough: quick sizes in the debug build and again in the release build) executed at opt-level 0 under a counting #[global_allocator] and a panic monitor: every API region (one call or one small case) must see zero allocator calls on the calling thread and must not panic unless the panic is a documented one being probed; plus Display/Debug of every public value type and scanner, error Display and failing parse/conversion paths into stack buffers; non-trivial = API region that executed library code without panicking; distinct_nontrivial is the number of distinct API entry points (labels) exercised, counted by the monitor ; thorough/release additionally runs the full (N)RPN encoding product, one monitored region per (constructor, channel, number) row");
    let mut sub = cfg.clone();
    sub.as_c18 = true;
    let ids: &[&str] = &[
        "C01", "C02", "C03", "C04", "C05", "C06", "C07", "C08", "C09", "C10", "C11", "C12", "C13", "C14", "C15", "C16", "C17",
    ];
    let mut ran = Vec::new();
    for id in ids {
        let mut r = Report::new();
        sub.prop = id.to_string();
        if super::run_prop(id, &sub, &mut r) {
            ran.push(*id);
            rep.evaluations += r.evaluations;
            rep.count("functional_violations_seen_in_sub_workloads_(decided_by_their_own_checks)", r.violations_total);
            rep.states += r.states;
            rep.transitions += r.transitions;
        }
    }
    if cfg.thorough && cfg.release {
        // the full (N)RPN constructor x channel x number x value x byte-order product, every
        // (constructor, channel, number) row being one allocation/panic-monitored region
        let mut full = cfg.clone();
        full.prop = "C09".to_string();
        let mut r = Report::new();
        super::pn::run_c09(&full, &mut r);
        rep.evaluations += r.evaluations;
        rep.count("full_pn_encoding_product_evaluations_under_allocation_monitor", r.evaluations);
        ran.push("C09 (full product)");
    }
    rep.notes.insert("sub_workloads_run".into(), json!(ran));
    formatting(rep);
    rep.set_exhaustive(false);
    rep.assume("allocation and panic freedom is decided for the operations the workloads reach; every listed public entry point must have a non-zero call count");
    rep.assume("decided at opt-level 0 (debug build) so that allocations cannot be optimised away; the release build is run in the thorough tier and reported separately");
    rep.sample(json!({"region":"PollingParameterNumberMessageScanner::feed","allocator_calls_inside":0}));
    rep.sample(json!({"region":"Display for U14 into a 32-byte stack buffer","allocator_calls_inside":0}));
    rep.sample(json!({"region":"\"abc\".parse::<U7>() (fails)","allocator_calls_inside":0}));
}

/// Fixed-shape workload without any harness-side allocation, used for the allocator-level
/// cross-check under valgrind: the process's total allocation count must not depend on `n`.
pub fn alloc_audit(n: u64) -> u64 {
    let mut acc: u64 = 0;
    let mut cc14 = ControlChange14BitMessageScanner::new();
    let mut pn = ParameterNumberMessageScanner::new();
    #[cfg(feature = "std")]
    let mut poll = PollingParameterNumberMessageScanner::new(std::time::Duration::from_nanos(2000));
    let mut buf: StackBuf<4096> = StackBuf::new();
    for i in 0..n {
        let s = 0x80 | (i % 128) as u8;
        let d1 = (i / 3 % 128) as u8;
        let d2 = (i / 7 % 128) as u8;
        let r = RawShortMessage::from_bytes((s, u7(d1), u7(d2))).unwrap();
        let st = r.to_structured();
        let back: RawShortMessage = st.to_other();
        acc = acc.wrapping_add(back.status_byte() as u64 + st.data_byte_1().get() as u64);
        acc = acc.wrapping_add(r.channel().map(|c| c.get() as u64).unwrap_or(99));
        acc = acc.wrapping_add(r.is_note_on() as u64 + r.pitch_bend_value().map(|v| v.get() as u64).unwrap_or(0));
        let c = ch((i % 16) as u8);
        let m14 = ControlChange14BitMessage::new(c, cn((i % 32) as u8), u14((i % 16384) as u16));
        let shorts: [RawShortMessage; 2] = m14.to_short_messages();
        for sm in shorts.iter() {
            if let Some(x) = cc14.feed(sm) {
                acc = acc.wrapping_add(x.value().get() as u64);
            }
        }
        let pm = if i % 2 == 0 {
            ParameterNumberMessage::registered_14_bit(c, u14((i * 5 % 16384) as u16), u14((i * 11 % 16384) as u16))
        } else {
            ParameterNumberMessage::non_registered_increment(c, u14((i * 5 % 16384) as u16), u7((i % 128) as u8))
        };
        let enc: [Option<StructuredShortMessage>; 4] = pm.to_short_messages(DataEntryByteOrder::LsbFirst);
        for sm in enc.iter().flatten() {
            if let Some(x) = pn.feed(sm) {
                acc = acc.wrapping_add(x.value().get() as u64);
            }
            #[cfg(feature = "std")]
            {
                helgoboss_midi::verif_hooks::set_mock_time(i * 700);
                let o = poll.feed(sm);
                acc = acc.wrapping_add(o[0].map(|x| x.number().get() as u64).unwrap_or(1));
                if let Some(x) = poll.poll(c) {
                    acc = acc.wrapping_add(x.value().get() as u64);
                }
            }
        }
        if i % 64 == 0 {
            cc14.reset();
            pn.reset();
            #[cfg(feature = "std")]
            poll.reset();
        }
        buf.clear();
        let _ = write!(buf, "{} {:?} {}", u14((i % 16384) as u16), st, c);
        acc = acc.wrapping_add(buf.len as u64);
        let parsed = buf.as_str().split(' ').next().unwrap_or("").parse::<U14>();
        acc = acc.wrapping_add(parsed.map(|v| v.get() as u64).unwrap_or(7));
        acc = acc.wrapping_add("x".parse::<U7>().is_err() as u64);
        acc = acc.wrapping_add(U7::try_from(i as u32).is_ok() as u64);
    }
    acc
}
