//! C06 — Factory constructors build exactly the message they describe.
//! Exhaustive over every argument tuple of all 23 named constructors for RawShortMessage and
//! StructuredShortMessage (and the foreign implementor), the three generic constructors x all
//! 23 types, and the test_util shorthands over the full u8/u16 argument range.

use super::c02::{acc_of, Acc};
use crate::carriers::Foreign;
use crate::mon::{api, api_probe, note_expected_panic};
use crate::report::Report;
use crate::spec::*;
use crate::util::{par, Cfg};
use helgoboss_midi::*;
use serde_json::json;

#[derive(Copy, Clone, PartialEq, Eq, Debug)]
struct Built {
    bytes: (u8, U7, U7),
    acc: Acc,
}

impl crate::mon::Observe for Built {
    fn observe(&self) {
        self.bytes.observe();
        self.acc.observe();
    }
}

fn built<M: ShortMessage>(m: &M) -> Built {
    Built {
        bytes: m.to_bytes(),
        acc: acc_of(m),
    }
}

/// checks one constructed message against the expected spec bytes (information-free bytes are
/// zero by the constructor's own contract, so Raw and Structured expect the same bytes here)
fn judge(ctor: &'static str, carrier: &'static str, args: [i64; 3], b: Option<Built>, exp: (u8, u8, u8), rep: &mut Report) {
    let rp = json!({"kind":"ctor","ctor":ctor,"carrier":carrier,"args":args});
    let Some(b) = b else {
        crate::viol!(rep, 
            format!("C06:panic:{}:{}", ctor, carrier),
            format!("{}::{}{:?} panicked", carrier, ctor, args),
            rp,
        );
        return;
    };
    let got = (b.bytes.0, b.bytes.1.get(), b.bytes.2.get());
    if got != exp {
        crate::viol!(rep, 
            format!("C06:bytes:{}:{}", ctor, carrier),
            format!("{}::{}{:?} built bytes {:?}, expected {:?}", carrier, ctor, args, got, exp),
            rp,
        );
        return;
    }
    // accessors must return the arguments: compare with the table view of the expected bytes
    if let Some((which, detail)) = super::c02::compare(&b.acc, exp.0, exp.1, exp.2) {
        crate::viol!(rep, 
            format!("C06:accessor:{}:{}:{}", ctor, carrier, which),
            format!("{}::{}{:?}.{}: {}", carrier, ctor, args, which, detail),
            rp,
        );
    }
}

fn named<F: ShortMessageFactory + Copy>(carrier: &'static str, cfg: &Cfg, rep: &mut Report) {
    let stride: usize = if cfg.as_c18 && !cfg.thorough { 7 } else { 1 };
    par(cfg, rep, |shard, n, rep| {
        let mut evals = 0u64;
        let mut nontrivial = 0u64;
        for c in (shard..16).step_by(n) {
            let c = c as u8;
            for a in 0u8..128 {
                for b in (0u8..128).step_by(stride) {
                    let args = [c as i64, a as i64, b as i64];
                    crate::mon::set_case("ctor3", [c as i64, a as i64, b as i64, 0, 0, 0]);
                    let r = api("ShortMessageFactory::note_on", || built(&F::note_on(ch(c), kn(a), u7(b))));
                    judge("note_on", carrier, args, r, (0x90 | c, a, b), rep);
                    let r = api("ShortMessageFactory::note_off", || built(&F::note_off(ch(c), kn(a), u7(b))));
                    judge("note_off", carrier, args, r, (0x80 | c, a, b), rep);
                    let r = api("ShortMessageFactory::control_change", || built(&F::control_change(ch(c), cn(a), u7(b))));
                    judge("control_change", carrier, args, r, (0xB0 | c, a, b), rep);
                    let r = api("ShortMessageFactory::polyphonic_key_pressure", || {
                        built(&F::polyphonic_key_pressure(ch(c), kn(a), u7(b)))
                    });
                    judge("polyphonic_key_pressure", carrier, args, r, (0xA0 | c, a, b), rep);
                    // 14-bit argument: value = b*128 + a
                    let v = (b as u16) * 128 + a as u16;
                    let r = api("ShortMessageFactory::pitch_bend_change", || built(&F::pitch_bend_change(ch(c), u14(v))));
                    judge("pitch_bend_change", carrier, [c as i64, v as i64, 0], r, (0xE0 | c, a, b), rep);
                    evals += 5;
                    nontrivial += 5;
                }
                let args = [c as i64, a as i64, 0];
                let r = api("ShortMessageFactory::program_change", || built(&F::program_change(ch(c), u7(a))));
                judge("program_change", carrier, args, r, (0xC0 | c, a, 0), rep);
                let r = api("ShortMessageFactory::channel_pressure", || built(&F::channel_pressure(ch(c), u7(a))));
                judge("channel_pressure", carrier, args, r, (0xD0 | c, a, 0), rep);
                evals += 2;
                nontrivial += 2;
            }
        }
        // system common with arguments, sharded by value
        for v in (shard..16384).step_by(n) {
            let v = v as u16;
            let r = api("ShortMessageFactory::song_position_pointer", || built(&F::song_position_pointer(u14(v))));
            judge("song_position_pointer", carrier, [v as i64, 0, 0], r, (0xF2, (v & 127) as u8, (v >> 7) as u8), rep);
            evals += 1;
            nontrivial += 1;
        }
        if shard == 0 {
            for a in 0u8..128 {
                let r = api("ShortMessageFactory::song_select", || built(&F::song_select(u7(a))));
                judge("song_select", carrier, [a as i64, 0, 0], r, (0xF3, a, 0), rep);
                evals += 1;
            }
            for (d1, f) in all_quarter_frames() {
                let r = api("ShortMessageFactory::time_code_quarter_frame", || built(&F::time_code_quarter_frame(f)));
                judge("time_code_quarter_frame", carrier, [d1 as i64, 0, 0], r, (0xF1, d1, 0), rep);
                evals += 1;
            }
            macro_rules! nullary {
                ($($name:ident => $status:expr),*) => { $(
                    let r = api(concat!("ShortMessageFactory::", stringify!($name)), || built(&F::$name()));
                    judge(stringify!($name), carrier, [0, 0, 0], r, ($status, 0, 0), rep);
                    evals += 1;
                )* };
            }
            nullary!(system_exclusive_start => 0xF0, tune_request => 0xF6, system_exclusive_end => 0xF7,
                timing_clock => 0xF8, start => 0xFA, r#continue => 0xFB, stop => 0xFC,
                active_sensing => 0xFE, system_reset => 0xFF);
        }
        rep.evaluations += evals;
        rep.distinct_nontrivial += nontrivial;
    });
}

fn generic<F: ShortMessageFactory + Copy>(carrier: &'static str, structured: bool, cfg: &Cfg, rep: &mut Report) {
    let bd: [u8; 6] = [0, 1, 63, 64, 126, 127];
    let step = if cfg.as_c18 && !cfg.thorough { 9 } else { 1 };
    for (tb, ty, tname) in TYPES.iter() {
        let is_channel = *tb < 0xF0;
        let is_common = (0xF1..=0xF7).contains(tb);
        let is_rt = *tb >= 0xF8;
        // channel_message
        for c in 0u8..16 {
            let mut pairs: Vec<(u8, u8)> = vec![];
            if is_channel && !cfg.as_c18 && (c == 0 || c == 15 || c == (*tb >> 4) % 16) {
                // the complete data byte product on three channels per type
                for a in 0u8..128 {
                    for b in 0u8..128 {
                        pairs.push((a, b));
                    }
                }
            } else {
                for a in (0u8..128).step_by(step) {
                    for b in bd {
                        pairs.push((a, b));
                        pairs.push((b, a));
                    }
                }
            }
            for (a, b) in pairs {
                crate::mon::set_case("generic-ctor", [*tb as i64, c as i64, a as i64, b as i64, 0, 0]);
                if crate::mon::ABORT_BUILD && !is_channel {
                    continue;
                }
                let r = api_probe("ShortMessageFactory::channel_message", || {
                    built(&F::channel_message(*ty, ch(c), u7(a), u7(b)))
                });
                rep.evaluations += 1;
                let rp = json!({"kind":"generic-ctor","ctor":"channel_message","carrier":carrier,"type":tname,"channel":c,"d1":a,"d2":b});
                match (r, is_channel) {
                    (Ok(bt), true) => {
                        let exp = if structured { canon(tb | c, a, b) } else { (tb | c, a, b) };
                        let got = (bt.bytes.0, bt.bytes.1.get(), bt.bytes.2.get());
                        if got != exp || super::c02::compare(&bt.acc, exp.0, exp.1, exp.2).is_some() {
                            crate::viol!(rep, 
                                format!("C06:generic-bytes:channel_message:{}:{}", carrier, tname),
                                format!("{}::channel_message({}, {}, {}, {}) built {:?} expected {:?}", carrier, tname, c, a, b, got, exp),
                                rp,
                            );
                        }
                        rep.distinct_nontrivial += 1;
                    }
                    (Err(_), false) => {
                        note_expected_panic("ShortMessageFactory::channel_message");
                        rep.distinct_nontrivial += 1;
                    }
                    (Ok(bt), false) => crate::viol!(rep, 
                        format!("C06:generic-no-panic:channel_message:{}:{}", carrier, tname),
                        format!("{}::channel_message({}, ..) did not panic for a non-channel type; built {:?}", carrier, tname, bt.bytes),
                        rp,
                    ),
                    (Err(m), true) => crate::viol!(rep, 
                        format!("C06:generic-panic:channel_message:{}:{}", carrier, tname),
                        format!("{}::channel_message({}, {}, {}, {}) panicked: {}", carrier, tname, c, a, b, m),
                        rp,
                    ),
                }
            }
        }
        // system_common_message
        let common_pairs: Vec<(u8, u8)> = if is_common && !cfg.as_c18 {
            (0u8..128).flat_map(|a| (0u8..128).map(move |b| (a, b))).collect()
        } else {
            (0u8..128).step_by(step).flat_map(|a| bd.into_iter().flat_map(move |b| [(a, b), (b, a)])).collect()
        };
        for (x, y) in common_pairs {
            {
                {
                    if crate::mon::ABORT_BUILD && !is_common {
                        continue;
                    }
                    let r = api_probe("ShortMessageFactory::system_common_message", || {
                        built(&F::system_common_message(*ty, u7(x), u7(y)))
                    });
                    rep.evaluations += 1;
                    let rp = json!({"kind":"generic-ctor","ctor":"system_common_message","carrier":carrier,"type":tname,"d1":x,"d2":y});
                    match (r, is_common) {
                        (Ok(bt), true) => {
                            let exp = if structured { canon(*tb, x, y) } else { (*tb, x, y) };
                            let got = (bt.bytes.0, bt.bytes.1.get(), bt.bytes.2.get());
                            if got != exp || super::c02::compare(&bt.acc, exp.0, exp.1, exp.2).is_some() {
                                crate::viol!(rep, 
                                    format!("C06:generic-bytes:system_common_message:{}:{}", carrier, tname),
                                    format!("{}::system_common_message({}, {}, {}) built {:?} expected {:?}", carrier, tname, x, y, got, exp),
                                    rp,
                                );
                            }
                            rep.distinct_nontrivial += 1;
                        }
                        (Err(_), false) => note_expected_panic("ShortMessageFactory::system_common_message"),
                        (Ok(bt), false) => crate::viol!(rep, 
                            format!("C06:generic-no-panic:system_common_message:{}:{}", carrier, tname),
                            format!("{}::system_common_message({}, ..) did not panic; built {:?}", carrier, tname, bt.bytes),
                            rp,
                        ),
                        (Err(m), true) => crate::viol!(rep, 
                            format!("C06:generic-panic:system_common_message:{}:{}", carrier, tname),
                            format!("{}::system_common_message({}, {}, {}) panicked: {}", carrier, tname, x, y, m),
                            rp,
                        ),
                    }
                }
            }
        }
        // system_real_time_message
        if crate::mon::ABORT_BUILD && !is_rt {
            continue;
        }
        let r = api_probe("ShortMessageFactory::system_real_time_message", || {
            built(&F::system_real_time_message(*ty))
        });
        rep.evaluations += 1;
        let rp = json!({"kind":"generic-ctor","ctor":"system_real_time_message","carrier":carrier,"type":tname});
        match (r, is_rt) {
            (Ok(bt), true) => {
                let got = (bt.bytes.0, bt.bytes.1.get(), bt.bytes.2.get());
                if got != (*tb, 0, 0) || super::c02::compare(&bt.acc, *tb, 0, 0).is_some() {
                    crate::viol!(rep, 
                        format!("C06:generic-bytes:system_real_time_message:{}:{}", carrier, tname),
                        format!("{}::system_real_time_message({}) built {:?}", carrier, tname, got),
                        rp,
                    );
                }
            }
            (Err(_), false) => note_expected_panic("ShortMessageFactory::system_real_time_message"),
            (Ok(bt), false) => crate::viol!(rep, 
                format!("C06:generic-no-panic:system_real_time_message:{}:{}", carrier, tname),
                format!("{}::system_real_time_message({}) did not panic; built {:?}", carrier, tname, bt.bytes),
                rp,
            ),
            (Err(m), true) => crate::viol!(rep, 
                format!("C06:generic-panic:system_real_time_message:{}:{}", carrier, tname),
                format!("{}::system_real_time_message({}) panicked: {}", carrier, tname, m),
                rp,
            ),
        }
    }
}


/// How a constructor is called: every factory function is also called with path syntax on the
/// concrete type (`RawShortMessage::note_on(..)` — an inherent function of the same name would
/// shadow the trait's) and must build what the trait-dispatched call builds.
macro_rules! concrete_factories {
    ($T:ty, $carrier:expr, $cfg:expr, $rep:expr) => {{
        let rep: &mut Report = $rep;
        let cfg: &Cfg = $cfg;
        let carrier: &'static str = $carrier;
        let dsample: Vec<u8> = if cfg.as_c18 && !cfg.thorough { vec![0, 1, 64, 127] } else { (0u8..128).collect() };
        let bd: [u8; 5] = [0, 1, 64, 126, 127];
        let mut calls = 0u64;
        macro_rules! same {
            ($name:expr, $args:expr, $direct:expr, $via_trait:expr) => {{
                let d = api(concat!("ShortMessageFactory (path syntax on the concrete type)"), || $direct.to_bytes());
                let t = api("ShortMessageFactory (trait dispatch)", || $via_trait.to_bytes());
                calls += 2;
                if d.is_none() || d != t {
                    crate::viol!(
                        rep,
                        format!("C06:concrete-vs-trait:{}:{}", $name, carrier),
                        format!("{}::{}{:?} built {:?} when called on the concrete type, {:?} through the trait", carrier, $name, $args, d, t),
                        json!({"kind":"ctor","ctor":$name,"carrier":carrier,"args":format!("{:?}", $args),"call":"path syntax on the concrete type"})
                    );
                }
            }};
        }
        for c in 0u8..16 {
            for &a in &dsample {
                for &b in &bd {
                    same!("note_on", (c, a, b), <$T>::note_on(ch(c), kn(a), u7(b)), <$T as ShortMessageFactory>::note_on(ch(c), kn(a), u7(b)));
                    same!("note_off", (c, a, b), <$T>::note_off(ch(c), kn(a), u7(b)), <$T as ShortMessageFactory>::note_off(ch(c), kn(a), u7(b)));
                    same!("control_change", (c, a, b), <$T>::control_change(ch(c), cn(a), u7(b)), <$T as ShortMessageFactory>::control_change(ch(c), cn(a), u7(b)));
                    same!("polyphonic_key_pressure", (c, a, b), <$T>::polyphonic_key_pressure(ch(c), kn(a), u7(b)), <$T as ShortMessageFactory>::polyphonic_key_pressure(ch(c), kn(a), u7(b)));
                    let v = a as u16 * 128 + b as u16;
                    same!("pitch_bend_change", (c, v), <$T>::pitch_bend_change(ch(c), u14(v)), <$T as ShortMessageFactory>::pitch_bend_change(ch(c), u14(v)));
                    same!("from_bytes", (0x90 | c, a, b), <$T>::from_bytes((0x90 | c, u7(a), u7(b))).ok().unwrap(), <$T as ShortMessageFactory>::from_bytes((0x90 | c, u7(a), u7(b))).ok().unwrap());
                }
                same!("program_change", (c, a), <$T>::program_change(ch(c), u7(a)), <$T as ShortMessageFactory>::program_change(ch(c), u7(a)));
                same!("channel_pressure", (c, a), <$T>::channel_pressure(ch(c), u7(a)), <$T as ShortMessageFactory>::channel_pressure(ch(c), u7(a)));
            }
        }
        for &a in &dsample {
            same!("song_select", (a,), <$T>::song_select(u7(a)), <$T as ShortMessageFactory>::song_select(u7(a)));
            for &b in &bd {
                let v = b as u16 * 128 + a as u16;
                same!("song_position_pointer", (v,), <$T>::song_position_pointer(u14(v)), <$T as ShortMessageFactory>::song_position_pointer(u14(v)));
            }
        }
        for (d1, f) in all_quarter_frames() {
            same!("time_code_quarter_frame", (d1,), <$T>::time_code_quarter_frame(f), <$T as ShortMessageFactory>::time_code_quarter_frame(f));
        }
        same!("system_exclusive_start", (), <$T>::system_exclusive_start(), <$T as ShortMessageFactory>::system_exclusive_start());
        same!("tune_request", (), <$T>::tune_request(), <$T as ShortMessageFactory>::tune_request());
        same!("system_exclusive_end", (), <$T>::system_exclusive_end(), <$T as ShortMessageFactory>::system_exclusive_end());
        same!("timing_clock", (), <$T>::timing_clock(), <$T as ShortMessageFactory>::timing_clock());
        same!("start", (), <$T>::start(), <$T as ShortMessageFactory>::start());
        same!("continue", (), <$T>::r#continue(), <$T as ShortMessageFactory>::r#continue());
        same!("stop", (), <$T>::stop(), <$T as ShortMessageFactory>::stop());
        same!("active_sensing", (), <$T>::active_sensing(), <$T as ShortMessageFactory>::active_sensing());
        same!("system_reset", (), <$T>::system_reset(), <$T as ShortMessageFactory>::system_reset());
        // from_other, and the three generic constructors for all 23 types (the panic condition too)
        for (tb, ty, tname) in TYPES.iter() {
            let is_channel = *tb < 0xF0;
            let is_common = (0xF1..=0xF7).contains(tb);
            let is_rt = *tb >= 0xF8;
            macro_rules! same_or_panic {
                ($name:expr, $expected_ok:expr, $args:expr, $direct:expr, $via_trait:expr) => {{
                    if !(crate::mon::ABORT_BUILD && !$expected_ok) {
                        let d = api_probe("ShortMessageFactory (path syntax on the concrete type)", || $direct.to_bytes()).ok();
                        let t = api_probe("ShortMessageFactory (trait dispatch)", || $via_trait.to_bytes()).ok();
                        calls += 2;
                        if d != t || d.is_some() != $expected_ok {
                            crate::viol!(
                                rep,
                                format!("C06:concrete-vs-trait:{}:{}:{}", $name, carrier, tname),
                                format!("{}::{}({}, {:?}) gave {:?} when called on the concrete type, {:?} through the trait (None = panic; a panic is expected exactly for a type of another category)", carrier, $name, tname, $args, d, t),
                                json!({"kind":"generic-ctor","ctor":$name,"carrier":carrier,"type":tname,"args":format!("{:?}", $args),"call":"path syntax on the concrete type"})
                            );
                        } else if d.is_none() {
                            note_expected_panic("ShortMessageFactory (path syntax on the concrete type)");
                            note_expected_panic("ShortMessageFactory (trait dispatch)");
                        }
                    }
                }};
            }
            for c in [0u8, 1, 9, 15] {
                for (a, b) in [(0u8, 0u8), (1, 2), (64, 127), (127, 0)] {
                    same_or_panic!("channel_message", is_channel, (c, a, b), <$T>::channel_message(*ty, ch(c), u7(a), u7(b)), <$T as ShortMessageFactory>::channel_message(*ty, ch(c), u7(a), u7(b)));
                }
            }
            for (a, b) in [(0u8, 0u8), (1, 2), (64, 127), (127, 0)] {
                same_or_panic!("system_common_message", is_common, (a, b), <$T>::system_common_message(*ty, u7(a), u7(b)), <$T as ShortMessageFactory>::system_common_message(*ty, u7(a), u7(b)));
            }
            same_or_panic!("system_real_time_message", is_rt, (), <$T>::system_real_time_message(*ty), <$T as ShortMessageFactory>::system_real_time_message(*ty));
            let src = RawShortMessage::from_bytes((*tb | if is_channel { 5 } else { 0 }, u7(33), u7(44))).ok();
            if let Some(src) = src {
                same!("from_other", (tname,), <$T>::from_other(&src), <$T as ShortMessageFactory>::from_other(&src));
            }
        }
        rep.evaluations += calls;
        rep.count("c06_constructor_calls_with_path_syntax_on_the_concrete_type", calls / 2);
    }};
}

fn concrete_vs_trait(cfg: &Cfg, rep: &mut Report) {
    concrete_factories!(RawShortMessage, "Raw", cfg, rep);
    concrete_factories!(StructuredShortMessage, "Structured", cfg, rep);
}

/// test_util shorthands: each argument over its full primitive range, the others at boundaries.
fn shorthands(cfg: &Cfg, rep: &mut Report) {
    use helgoboss_midi::test_util as tu;
    if crate::mon::ABORT_BUILD {
        // the sweeps below include invalid arguments (expected panics, which would end the process
        // in the panic=abort build): valid arguments only here
        for c in 0u8..16 {
            for a in 0u8..128 {
                for b in [0u8, 1, 63, 64, 127] {
                    let got = api("test_util::note_on", || {
                        [tu::note_on(c, a, b), tu::note_off(c, a, b), tu::control_change(c, a, b), tu::short(0xA0 | c, a, b)]
                    });
                    rep.evaluations += 4;
                    let want = [(0x90 | c, a, b), (0x80 | c, a, b), (0xB0 | c, a, b), (0xA0 | c, a, b)];
                    let gotb = got.map(|g| g.map(|m| {
                        let t = m.to_bytes();
                        (t.0, t.1.get(), t.2.get())
                    }));
                    if gotb != Some(want) {
                        crate::viol!(
                            rep,
                            "C06:test_util:valid-arguments:abort-build",
                            format!("test_util::{{note_on,note_off,control_change,short}}({},{},{}) built {:?}, expected {:?}", c, a, b, gotb, want),
                            json!({"kind":"shorthand","name":"note_on/note_off/control_change/short","args":[c, a, b]})
                        );
                    }
                }
            }
        }
        return;
    }
    let step: usize = if cfg.as_c18 && !cfg.thorough { 5 } else { 1 };
    // the closures return the crate value itself so that the range observer sees it
    let rawb = |m: RawShortMessage| -> RawShortMessage { m };
    let nb = |r: Result<RawShortMessage, String>| -> Result<(u8, u8, u8), String> {
        r.map(|m| {
            let b = m.to_bytes();
            (b.0, b.1.get(), b.2.get())
        })
    };
    // helper: judge a shorthand call
    let judge = |name: &'static str, args: [i64; 3], valid: bool, r: Result<(u8, u8, u8), String>, exp: (u8, u8, u8), rep: &mut Report| {
        rep.evaluations += 1;
        let rp = json!({"kind":"shorthand","fn":name,"args":args});
        match (r, valid) {
            (Ok(got), true) => {
                rep.distinct_nontrivial += 1;
                if got != exp {
                    crate::viol!(rep, 
                        format!("C06:shorthand-bytes:{}", name),
                        format!("test_util::{}{:?} built {:?}, expected {:?}", name, args, got, exp),
                        rp,
                    );
                }
            }
            (Err(_), false) => {
                note_expected_panic("test_util::*");
                rep.distinct_nontrivial += 1;
            }
            (Ok(got), false) => crate::viol!(rep, 
                format!("C06:shorthand-no-panic:{}", name),
                format!("test_util::{}{:?} did not panic on an out-of-range argument; built {:?}", name, args, got),
                rp,
            ),
            (Err(m), true) => crate::viol!(rep, 
                format!("C06:shorthand-panic:{}", name),
                format!("test_util::{}{:?} panicked on valid arguments: {}", name, args, m),
                rp,
            ),
        }
    };
    let bd8: [u8; 5] = [0, 1, 15, 127, 128];
    // three u8 arguments: (channel, a, b)
    macro_rules! three {
        ($name:ident, $status:expr) => {
            for x in (0u16..256).step_by(step) {
                let x = x as u8;
                for &o1 in &bd8 {
                    for &o2 in &bd8 {
                        for (c, a, b) in [(x, o1, o2), (o1, x, o2), (o1, o2, x)] {
                            let valid = c <= 15 && a <= 127 && b <= 127;
                            let r = api_probe(concat!("test_util::", stringify!($name)), || rawb(tu::$name(c, a, b)));
                            judge(stringify!($name), [c as i64, a as i64, b as i64], valid, nb(r), ($status | (c & 15), a, b), rep);
                        }
                    }
                }
            }
        };
    }
    three!(note_on, 0x90);
    three!(note_off, 0x80);
    three!(control_change, 0xB0);
    three!(polyphonic_key_pressure, 0xA0);
    macro_rules! two {
        ($name:ident, $status:expr) => {
            for x in (0u16..256).step_by(step) {
                let x = x as u8;
                for &o in &bd8 {
                    for (c, a) in [(x, o), (o, x)] {
                        let valid = c <= 15 && a <= 127;
                        let r = api_probe(concat!("test_util::", stringify!($name)), || rawb(tu::$name(c, a)));
                        judge(stringify!($name), [c as i64, a as i64, 0], valid, nb(r), ($status | (c & 15), a, 0), rep);
                    }
                }
            }
        };
    }
    two!(program_change, 0xC0);
    two!(channel_pressure, 0xD0);
    // short(status, d1, d2)
    for x in (0u16..256).step_by(step) {
        let x = x as u8;
        for &o1 in &[0u8, 0x7F, 0x80, 0x93, 0xF1, 0xFF] {
            for &o2 in &bd8 {
                for (s, a, b) in [(x, o2, o2), (o1, x, o2), (o1, o2, x)] {
                    let valid = s >= 0x80 && a <= 127 && b <= 127;
                    let r = api_probe("test_util::short", || rawb(tu::short(s, a, b)));
                    judge("short", [s as i64, a as i64, b as i64], valid, nb(r), (s, a, b), rep);
                }
            }
        }
    }
    // pitch_bend_change(channel u8, value u16), song_position_pointer(u16)
    let step16 = if cfg.as_c18 && !cfg.thorough { 37 } else { 1 };
    for v in (0u32..65536).step_by(step16) {
        let v = v as u16;
        for c in [0u8, 15, 16] {
            let valid = c <= 15 && v <= 16383;
            let r = api_probe("test_util::pitch_bend_change", || rawb(tu::pitch_bend_change(c, v)));
            judge("pitch_bend_change", [c as i64, v as i64, 0], valid, nb(r), (0xE0 | (c & 15), (v & 127) as u8, ((v >> 7) & 127) as u8), rep);
        }
        let r = api_probe("test_util::song_position_pointer", || rawb(tu::song_position_pointer(v)));
        judge("song_position_pointer", [v as i64, 0, 0], v <= 16383, nb(r), (0xF2, (v & 127) as u8, ((v >> 7) & 127) as u8), rep);
        let r = api_probe("test_util::u14", || tu::u14(v)).map(|x| x.get());
        rep.evaluations += 1;
        match (r, v <= 16383) {
            (Ok(g), true) if g == v => {}
            (Err(_), false) => note_expected_panic("test_util::*"),
            (r, _) => crate::viol!(rep, 
                "C06:shorthand:u14",
                format!("test_util::u14({}) -> {:?}", v, r),
                json!({"kind":"shorthand","fn":"u14","args":[v]}),
            ),
        }
    }
    for x in 0u16..256 {
        let x = x as u8;
        let r = api_probe("test_util::song_select", || rawb(tu::song_select(x)));
        judge("song_select", [x as i64, 0, 0], x <= 127, nb(r), (0xF3, x, 0), rep);
        macro_rules! small {
            ($name:ident, $max:expr) => {
                let r = api_probe(concat!("test_util::", stringify!($name)), || tu::$name(x)).map(|x| x.get());
                rep.evaluations += 1;
                match (r, x <= $max) {
                    (Ok(g), true) if g == x => {}
                    (Err(_), false) => note_expected_panic("test_util::*"),
                    (r, _) => crate::viol!(rep, 
                        format!("C06:shorthand:{}", stringify!($name)),
                        format!("test_util::{}({}) -> {:?}", stringify!($name), x, r),
                        json!({"kind":"shorthand","fn":stringify!($name),"args":[x]}),
                    ),
                }
            };
        }
        small!(u4, 15);
        small!(u7, 127);
        small!(channel, 15);
        small!(key_number, 127);
        small!(controller_number, 127);
    }
    // nullary shorthands and quarter frames
    macro_rules! nullary {
        ($($name:ident => $status:expr),*) => { $(
            let r = api_probe(concat!("test_util::", stringify!($name)), || rawb(tu::$name()));
            judge(stringify!($name), [0, 0, 0], true, nb(r), ($status, 0, 0), rep);
        )* };
    }
    nullary!(system_exclusive_start => 0xF0, tune_request => 0xF6, system_exclusive_end => 0xF7,
        timing_clock => 0xF8, start => 0xFA, r#continue => 0xFB, stop => 0xFC,
        active_sensing => 0xFE, system_reset => 0xFF);
    for (d1, f) in all_quarter_frames() {
        let r = api_probe("test_util::time_code_quarter_frame", || rawb(tu::time_code_quarter_frame(f)));
        judge("time_code_quarter_frame", [d1 as i64, 0, 0], true, nb(r), (0xF1, d1, 0), rep);
    }
    // composite shorthands: control_change_14_bit, nrpn, nrpn_14_bit, rpn, rpn_14_bit
    for c in [0u8, 15, 16] {
        for n in [0u16, 31, 32, 127, 128, 16383, 16384] {
            for v in [0u16, 127, 128, 16383, 16384] {
                let r = api_probe("test_util::control_change_14_bit", || tu::control_change_14_bit(c, n as u8, v))
                    .map(|m| (m.channel().get(), m.msb_controller_number().get(), m.value().get()));
                rep.evaluations += 1;
                let valid = c <= 15 && n <= 31 && v <= 16383;
                let n8 = n as u8;
                if n <= 255 {
                    match (r, valid) {
                        (Ok(g), true) if g == (c, n8, v) => {}
                        (Err(_), false) => note_expected_panic("test_util::*"),
                        (r, _) => crate::viol!(rep, 
                            "C06:shorthand:control_change_14_bit",
                            format!("test_util::control_change_14_bit({},{},{}) -> {:?}", c, n8, v, r),
                            json!({"kind":"shorthand","fn":"control_change_14_bit","args":[c,n8,v]}),
                        ),
                    }
                }
                macro_rules! pn {
                    ($name:ident, $vt:ty, $vmax:expr, $reg:expr, $b14:expr) => {
                        if v <= <$vt>::MAX as u16 {
                            let r = api_probe(concat!("test_util::", stringify!($name)), || tu::$name(c, n, v as $vt))
                                .map(|m| (m.channel().get(), m.number().get(), m.value().get(), m.is_registered(), m.is_14_bit(), m.data_type()));
                            rep.evaluations += 1;
                            let valid = c <= 15 && n <= 16383 && v <= $vmax;
                            match (r, valid) {
                                (Ok(g), true) if g == (c, n, v, $reg, $b14, DataType::DataEntry) => {}
                                (Err(_), false) => note_expected_panic("test_util::*"),
                                (r, _) => crate::viol!(rep, 
                                    format!("C06:shorthand:{}", stringify!($name)),
                                    format!("test_util::{}({},{},{}) -> {:?}", stringify!($name), c, n, v, r),
                                    json!({"kind":"shorthand","fn":stringify!($name),"args":[c,n,v]}),
                                ),
                            }
                        }
                    };
                }
                pn!(nrpn, u8, 127, false, false);
                pn!(rpn, u8, 127, true, false);
                pn!(nrpn_14_bit, u16, 16383, false, true);
                pn!(rpn_14_bit, u16, 16383, true, true);
            }
        }
    }
}

pub fn run(cfg: &Cfg, rep: &mut Report) {
    rep.rule("every argument tuple of all 23 named ShortMessageFactory constructors for Raw, Structured and a foreign implementor (16x128x128 for three-argument channel messages, all 16384 14-bit values x 16 channels, all 120 quarter frames); the three generic constructors x all 23 types x all channels x (all d1 x boundary d2 and vice versa); every test_util shorthand with each argument swept over its full u8/u16 range and the others at boundaries; non-trivial = a call whose result depends on its arguments (constructed message or expected panic); distinct by enumeration ; every constructor is also called with path syntax on the concrete types RawShortMessage / StructuredShortMessage (an inherent function would shadow the trait's) and compared with the trait-dispatched call");
    named::<RawShortMessage>("Raw", cfg, rep);
    named::<StructuredShortMessage>("Structured", cfg, rep);
    if !cfg.as_c18 {
        named::<Foreign>("Foreign", cfg, rep);
    }
    generic::<RawShortMessage>("Raw", false, cfg, rep);
    generic::<StructuredShortMessage>("Structured", true, cfg, rep);
    concrete_vs_trait(cfg, rep);
    shorthands(cfg, rep);
    rep.set_exhaustive(!cfg.as_c18 || cfg.thorough);
    rep.sample(json!({"ctor":"pitch_bend_change(ch 3, 8193)","expected_bytes":[0xE3,1,64]}));
    rep.sample(json!({"ctor":"program_change(ch 15, 127)","expected_bytes":[0xCF,127,0]}));
    rep.sample(json!({"ctor":"channel_message(TimingClock, ..)","expected":"panic (wrong category)"}));
    rep.sample(json!({"shorthand":"test_util::note_on(16, 0, 0)","expected":"panic"}));
}
