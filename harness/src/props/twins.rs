//! C15 — channel isolation, C16 — transparency of non-contributing messages (+ predicates),
//! C17 — reset() equals starting over. Differential twins: several copies of the *real*
//! scanner are driven in lock-step and must agree.

use super::cc14::random_cc14_event;
use super::pn::{pn_alphabet, random_pn_event};
use crate::explore::{explore, Sys};
use crate::mon::api;
use crate::report::Report;
use crate::scan::*;
use crate::spec::*;
use crate::util::{par, Cfg, Rng};
use helgoboss_midi::*;
use serde_json::json;

#[cfg(feature = "std")]
fn set_clock(now: u64) {
    helgoboss_midi::verif_hooks::set_mock_time(now);
}
#[cfg(not(feature = "std"))]
fn set_clock(_now: u64) {}

pub const TICK: u64 = 1000;

/// Uniform view of the three scanners.
pub trait AnyScan: Copy + Eq + std::fmt::Debug + Send + Sync + 'static {
    const NAME: &'static str;
    const HAS_POLL: bool;
    /// plain view of the outputs of one call: up to two (channel, description hash) reports
    type Out: Copy + Eq + std::fmt::Debug + Send + Sync;
    fn make(timeout: u64) -> Self;
    fn make_default() -> Self;
    fn feed_m(&mut self, m: &RawShortMessage) -> Option<Self::Out>;
    fn poll_c(&mut self, c: u8) -> Option<Self::Out>;
    fn reset_s(&mut self) -> Option<()>;
    fn empty() -> Self::Out;
    fn channels(o: &Self::Out) -> [Option<u8>; 2];
    fn contributing(cn: u8) -> bool;
    fn random_event(rng: &mut Rng, chans: u8, nvalues: u8, ticks: &[u64]) -> Ev;
    fn alphabet(chans: &[u8], rich: bool, values: &[u8; 2]) -> Vec<Ev>;
}

impl AnyScan for ControlChange14BitMessageScanner {
    const NAME: &'static str = "cc14";
    const HAS_POLL: bool = false;
    type Out = Option<C14M>;
    fn make(_t: u64) -> Self {
        Self::new()
    }
    fn make_default() -> Self {
        Self::default()
    }
    fn feed_m(&mut self, m: &RawShortMessage) -> Option<Self::Out> {
        api("ControlChange14BitMessageScanner::feed", || self.feed(m)).map(|o| o.as_ref().map(c14m))
    }
    fn poll_c(&mut self, _c: u8) -> Option<Self::Out> {
        Some(None)
    }
    fn reset_s(&mut self) -> Option<()> {
        api("ControlChange14BitMessageScanner::reset", || self.reset())
    }
    fn empty() -> Self::Out {
        None
    }
    fn channels(o: &Self::Out) -> [Option<u8>; 2] {
        [o.map(|m| m.ch), None]
    }
    fn contributing(cn: u8) -> bool {
        cn < 64
    }
    fn random_event(rng: &mut Rng, chans: u8, nvalues: u8, _ticks: &[u64]) -> Ev {
        random_cc14_event(rng, chans, nvalues < 128)
    }
    fn alphabet(chans: &[u8], rich: bool, values: &[u8; 2]) -> Vec<Ev> {
        let mut a = vec![];
        for (i, &c) in chans.iter().enumerate() {
            if i == 0 || rich {
                for n in 0u8..64 {
                    a.push(Ev::cc(c, n, values[1]));
                }
            } else {
                for n in [0u8, 31, 32, 63] {
                    a.push(Ev::cc(c, n, values[1]));
                }
            }
            a.push(Ev::cc(c, 64, 1));
            a.push(Ev::Msg(0x90 | c, 1, 33));
        }
        a.push(Ev::Msg(0xF8, 0, 0));
        a.push(Ev::Msg(0xF0 | chans[0], 1, 33));
        a.push(Ev::Msg(0xF0 | chans[chans.len() - 1], 33, 1));
        a.push(Ev::Reset);
        a
    }
}

impl AnyScan for ParameterNumberMessageScanner {
    const NAME: &'static str = "pn";
    const HAS_POLL: bool = false;
    type Out = Option<PnM>;
    fn make(_t: u64) -> Self {
        Self::new()
    }
    fn make_default() -> Self {
        Self::default()
    }
    fn feed_m(&mut self, m: &RawShortMessage) -> Option<Self::Out> {
        api("ParameterNumberMessageScanner::feed", || self.feed(m)).map(|o| o.as_ref().map(pnm))
    }
    fn poll_c(&mut self, _c: u8) -> Option<Self::Out> {
        Some(None)
    }
    fn reset_s(&mut self) -> Option<()> {
        api("ParameterNumberMessageScanner::reset", || self.reset())
    }
    fn empty() -> Self::Out {
        None
    }
    fn channels(o: &Self::Out) -> [Option<u8>; 2] {
        [o.map(|m| m.ch), None]
    }
    fn contributing(cn: u8) -> bool {
        is_pn_controller(cn)
    }
    fn random_event(rng: &mut Rng, chans: u8, nvalues: u8, _ticks: &[u64]) -> Ev {
        random_pn_event(rng, chans, nvalues, false, &crate::scan::TIME_SHIFTS)
    }
    fn alphabet(chans: &[u8], rich: bool, values: &[u8; 2]) -> Vec<Ev> {
        let mut a = pn_alphabet(chans, if rich { &values[..] } else { &values[1..] }, false, None);
        a.push(Ev::Msg(0xF0 | chans[0], 6, 38));
        a.push(Ev::Msg(0xF0 | chans[chans.len() - 1], 99, 98));
        a
    }
}

#[cfg(feature = "std")]
impl AnyScan for PollingParameterNumberMessageScanner {
    const NAME: &'static str = "polling";
    const HAS_POLL: bool = true;
    type Out = crate::poll::Outs;
    fn make(t: u64) -> Self {
        Self::new(crate::poll::dur(t))
    }
    fn make_default() -> Self {
        Self::default()
    }
    fn feed_m(&mut self, m: &RawShortMessage) -> Option<Self::Out> {
        api("PollingParameterNumberMessageScanner::feed", || self.feed(m)).map(|o| crate::poll::outs_of(&o))
    }
    fn poll_c(&mut self, c: u8) -> Option<Self::Out> {
        api("PollingParameterNumberMessageScanner::poll", || self.poll(ch(c))).map(|o| [o.as_ref().map(pnm), None])
    }
    fn reset_s(&mut self) -> Option<()> {
        api("PollingParameterNumberMessageScanner::reset", || self.reset())
    }
    fn empty() -> Self::Out {
        [None, None]
    }
    fn channels(o: &Self::Out) -> [Option<u8>; 2] {
        [o[0].map(|m| m.ch), o[1].map(|m| m.ch)]
    }
    fn contributing(cn: u8) -> bool {
        is_pn_controller(cn)
    }
    fn random_event(rng: &mut Rng, chans: u8, nvalues: u8, ticks: &[u64]) -> Ev {
        random_pn_event(rng, chans, nvalues, true, ticks)
    }
    fn alphabet(chans: &[u8], rich: bool, values: &[u8; 2]) -> Vec<Ev> {
        let mut a = pn_alphabet(chans, if rich { &values[..] } else { &values[1..] }, true, Some(TICK));
        a.push(Ev::Msg(0xF0 | chans[0], 6, 38));
        a.push(Ev::Msg(0xF0 | chans[chans.len() - 1], 99, 98));
        a
    }
}

fn key_of<S: AnyScan>(s: &S, now: u64, cap: u64, buf: &mut Vec<u8>, scratch: &mut String) {
    debug_into(s, scratch);
    if S::HAS_POLL {
        #[cfg(feature = "std")]
        crate::poll::normalise_instants(scratch.as_bytes(), now, cap, buf);
        #[cfg(not(feature = "std"))]
        {
            let _ = (now, cap);
            buf.extend_from_slice(scratch.as_bytes());
        }
    } else {
        buf.extend_from_slice(scratch.as_bytes());
    }
    buf.push(0xFE);
}

fn hj<S: AnyScan>(timeout: u64, path: &dyn Fn() -> Vec<String>, exp: String, got: String) -> serde_json::Value {
    history_json(S::NAME, if S::HAS_POLL { Some(timeout) } else { None }, path, json!(exp), json!(got))
}

// =====================================================================================
// C15
// =====================================================================================

#[derive(Clone)]
pub struct Iso<S: AnyScan> {
    shared: S,
    solo: [S; 16],
    now: u64,
    timeout: u64,
    cap: u64,
    /// channels rendered into the key
    in_play: [u8; 2],
    /// optional third channel rendered into the key
    third: Option<u8>,
}

impl<S: AnyScan> Iso<S> {
    pub fn new(timeout: u64, in_play: [u8; 2]) -> Self {
        set_clock(0);
        Iso {
            shared: S::make(timeout),
            solo: [S::make(timeout); 16],
            now: 0,
            timeout,
            cap: if timeout == u64::MAX { 3 * TICK } else { timeout },
            in_play,
            third: None,
        }
    }

    pub fn apply(&mut self, ev: &Ev, rep: &mut Report, path: &dyn Fn() -> Vec<String>) -> bool {
        let mut reported = false;
        if let Ev::TickPoll(n, c) = ev {
            self.now = self.now.saturating_add(*n);
            return self.apply(&Ev::Poll(*c), rep, path);
        }
        match ev {
            Ev::TickPoll(..) => {}
            Ev::Tick(n) => self.now = self.now.saturating_add(*n),
            Ev::Reset => {
                set_clock(self.now);
                self.shared.reset_s();
                for s in self.solo.iter_mut() {
                    s.reset_s();
                }
            }
            Ev::Msg(s, a, b) => {
                let m = raw(*s, *a, *b);
                set_clock(self.now);
                let before = self.shared;
                let o1 = self.shared.feed_m(&m);
                rep.count(&format!("c15_{}_shared_feeds", S::NAME), 1);
                match ev.channel() {
                    None => {
                        rep.count(&format!("c15_{}_system_messages", S::NAME), 1);
                        if o1 != Some(S::empty()) || self.shared != before {
                            crate::viol!(rep, 
                                format!("C15:{}:system-message-not-ignored", S::NAME),
                                format!("system message {} returned {:?}; state changed: {}", ev.render(), o1, self.shared != before),
                                hj::<S>(self.timeout, path, "nothing, equal state".into(), format!("{:?}", o1)),
                            );
                        }
                    }
                    Some(c) => {
                        let o2 = self.solo[c as usize].feed_m(&m);
                        if o1 != o2 {
                            crate::viol!(rep, 
                                format!("C15:{}:shared-differs-from-solo", S::NAME),
                                format!("feed({}) returned {:?} on the shared scanner but {:?} on a scanner that only sees channel {}", ev.render(), o1, o2, c),
                                hj::<S>(self.timeout, path, format!("{:?}", o2), format!("{:?}", o1)),
                            );
                        }
                        if let Some(o) = o1 {
                            for rc in S::channels(&o).iter().flatten() {
                                reported = true;
                                if *rc != c {
                                    crate::viol!(rep, 
                                        format!("C15:{}:report-on-wrong-channel", S::NAME),
                                        format!("feed({}) reported a message on channel {}", ev.render(), rc),
                                        hj::<S>(self.timeout, path, format!("channel {}", c), format!("{:?}", o)),
                                    );
                                }
                            }
                        }
                    }
                }
            }
            Ev::Poll(c) => {
                if S::HAS_POLL {
                    set_clock(self.now);
                    let o1 = self.shared.poll_c(*c);
                    let o2 = self.solo[*c as usize].poll_c(*c);
                    rep.count("c15_polling_shared_polls", 1);
                    if o1 != o2 {
                        crate::viol!(rep, 
                            format!("C15:{}:shared-poll-differs-from-solo", S::NAME),
                            format!("poll({}) returned {:?} on the shared scanner but {:?} on the solo scanner", c, o1, o2),
                            hj::<S>(self.timeout, path, format!("{:?}", o2), format!("{:?}", o1)),
                        );
                    }
                    if let Some(o) = o1 {
                        for rc in S::channels(&o).iter().flatten() {
                            reported = true;
                            if rc != c {
                                crate::viol!(rep, 
                                    format!("C15:{}:report-on-wrong-channel", S::NAME),
                                    format!("poll({}) reported a message on channel {}", c, rc),
                                    hj::<S>(self.timeout, path, format!("channel {}", c), format!("{:?}", o)),
                                );
                            }
                        }
                    }
                }
            }
        }
        reported
    }
}

impl<S: AnyScan> Sys for Iso<S> {
    type Sym = Ev;
    fn key(&self, buf: &mut Vec<u8>, scratch: &mut String) {
        key_of(&self.shared, self.now, self.cap, buf, scratch);
        key_of(&self.solo[self.in_play[0] as usize], self.now, self.cap, buf, scratch);
        key_of(&self.solo[self.in_play[1] as usize], self.now, self.cap, buf, scratch);
        if let Some(c) = self.third {
            key_of(&self.solo[c as usize], self.now, self.cap, buf, scratch);
        }
    }
    fn step(&mut self, sym: &Ev, rep: &mut Report, path: &dyn Fn() -> Vec<String>) {
        self.apply(sym, rep, path);
    }
    fn render(sym: &Ev) -> String {
        sym.render()
    }
}

fn c15_for<S: AnyScan>(cfg: &Cfg, rep: &mut Report, timeouts: &[u64]) {
    // exhaustive two-channel product for ordered channel pairs
    let mut pairs: Vec<(u8, u8)> = Vec::new();
    if cfg.thorough && cfg.release && !cfg.as_c18 {
        for a in 0..16u8 {
            for b in 0..16u8 {
                if a != b {
                    pairs.push((a, b));
                }
            }
        }
    } else if cfg.as_c18 {
        pairs.push((1, 9));
    } else {
        for a in 0..16u8 {
            pairs.push((a, (a + 8) % 16));
            pairs.push((a, (a + 1) % 16));
        }
    }
    let rich = cfg.thorough && cfg.release && !cfg.as_c18;
    let mut tot_states = 0;
    let mut tot_trans = 0;
    let mut all_fix = true;
    let vp = crate::util::value_pairs(cfg, 0xC15, 7);
    for &t in timeouts {
        for (pi, &(a, b)) in pairs.iter().enumerate() {
            if rep.own_violations(&cfg.prop) >= 20 {
                break; // already violated; skip the remaining pairs
            }
            let alpha = S::alphabet(&[a, b], rich, &vp[pi % vp.len()]);
            let (st, _) = explore(cfg, Iso::<S>::new(t, [a, b]), &alpha, if rich { 400_000 } else { 25_000 }, rep, false);
            tot_states += st.states;
            tot_trans += st.transitions;
            all_fix &= st.fixpoint;
            rep.max("max_explorer_depth", st.depth);
        }
    }
    if !cfg.as_c18 && S::NAME != "cc14" {
        // spec dictionary on a manager channel and a member channel, two values per channel
        for (a, b, vals) in [(0u8, 3u8, [0u8, 6u8]), (15, 12, [0, 6]), (0, 1, [0, 3])] {
            let t = *timeouts.last().unwrap();
            // two values on the manager channel, one on the member channel
            let mut alpha: Vec<Ev> = S::alphabet(&[a], true, &vals)
                .into_iter()
                .filter(|e| match e.as_cc() {
                    Some((_, n, _)) => S::contributing(n) || matches!(n, 7 | 120 | 121),
                    None => true,
                })
                .collect();
            for e in S::alphabet(&[b], false, &vals) {
                if !alpha.contains(&e) {
                    alpha.push(e);
                }
            }
            let (st, _) = explore(cfg, Iso::<S>::new(t, [a, b]), &alpha, 60_000, rep, false);
            tot_states += st.states;
            tot_trans += st.transitions;
            all_fix &= st.fixpoint;
            rep.count(&format!("c15_{}_dictionary_pair_runs", S::NAME), 1);
        }
    }
    if !cfg.as_c18 && S::HAS_POLL {
        // three channels pending at distinct times (orderings by channel index vs by arrival):
        // minimal per-channel alphabet (select, one data entry MSB, poll) + tick
        for (a, b, c) in [(1u8, 5u8, 9u8), (12, 7, 2), (0, 15, 8)] {
            let t = 2 * TICK;
            let mut alpha: Vec<Ev> = Vec::new();
            for &ch3 in &[a, b, c] {
                alpha.push(Ev::cc(ch3, 6, 1));
                alpha.push(Ev::Poll(ch3));
            }
            alpha.push(Ev::Tick(TICK));
            let mut init = Iso::<S>::new(t, [a, b]);
            init.third = Some(c);
            // numbers are selected up front so that the explorer spends its states on timing
            for &ch3 in &[a, b, c] {
                init.apply(&Ev::cc(ch3, 99, 1), rep, &|| vec!["(selection prefix)".into()]);
                init.apply(&Ev::cc(ch3, 98, 1), rep, &|| vec!["(selection prefix)".into()]);
            }
            let (st, _) = explore(cfg, init, &alpha, 100_000, rep, false);
            tot_states += st.states;
            tot_trans += st.transitions;
            all_fix &= st.fixpoint;
            rep.count("c15_polling_three_channel_runs", 1);
            rep.max("max_three_channel_states", st.states);
        }
    }
    rep.states += tot_states;
    rep.transitions += tot_trans;
    rep.evaluations += tot_trans;
    rep.distinct_nontrivial += tot_states;
    rep.notes.insert(
        format!("pair_explorer_{}", S::NAME),
        json!({"ordered_channel_pairs":pairs.len(),"timeouts":timeouts.len(),"states":tot_states,"transitions":tot_trans,"all_fixpoints_reached":all_fix,"rich_alphabet":rich}),
    );
    if !all_fix {
        rep.inconclusive(format!("C15 pair explorer for {} did not reach a fixpoint for some pair", S::NAME));
    }
    // seeded random interleavings, up to 16 channels, full alphabet
    let total = cfg.size(1_500, 3_000_000, 80_000_000);
    let timeouts: Vec<u64> = timeouts.to_vec();
    par(cfg, rep, |shard, nsh, rep| {
        let mut rng = Rng::derive(cfg.seed, 0xC15_00 + shard as u64 + S::NAME.len() as u64 * 1000);
        let per = total / nsh as u64;
        let mut done = 0;
        let mut with_report = 0;
        let mut hc = 0;
        while done < per {
            let t = *rng.pick(&timeouts);
            let tt = if t == u64::MAX { 5 * TICK } else { t };
            let mut ticks = vec![1, tt / 2, tt.saturating_sub(1), tt, tt + 1];
            #[cfg(feature = "std")]
            if S::HAS_POLL && rng.chance(1, 2) {
                ticks.extend_from_slice(&crate::poll::hostile_ticks(rng.below(tt.max(1))));
            }
            let len = rng.range(10, 300);
            let chans = *rng.pick(&[2u8, 3, 4, 16, 16]);
            let nvalues = *rng.pick(&[2u8, 4, 128, 200, 200]);
            let mut sys = Iso::<S>::new(t, [0, 1]);
            let mut hist: Vec<Ev> = Vec::with_capacity(len as usize);
            let mut reported = false;
            for _ in 0..len {
                let e = S::random_event(&mut rng, chans, nvalues, &ticks);
                hist.push(e);
                let h = &hist;
                reported |= sys.apply(&e, rep, &|| h.iter().map(|e| e.render()).collect());
            }
            done += len;
            hc += 1;
            with_report += reported as u64;
            if shard == 0 && hc == 2 {
                rep.sample(json!({"scanner":S::NAME,"random_interleaving": hist.iter().take(14).map(|e| e.render()).collect::<Vec<_>>(), "length": len, "channels": chans}));
            }
        }
        rep.evaluations += done;
        rep.distinct_nontrivial += with_report;
        rep.count(&format!("c15_{}_random_histories", S::NAME), hc);
        rep.count(&format!("c15_{}_random_histories_with_report", S::NAME), with_report);
    });
}


/// All 16 channels busy at once: every channel selects a number and holds a data entry MSB (the
/// polling scanner: all 16 pending together), in several channel orders; then the channels are
/// polled / completed in another order, twice. Scanner-level summaries of per-channel state
/// (counts, masks, "any pending" flags) saturate or wrap exactly here.
fn c15_all_channels_busy<S: AnyScan>(cfg: &Cfg, rep: &mut Report, timeout: u64) {
    let mut rng = Rng::derive(cfg.seed, 0xC15_16);
    let asc: Vec<u8> = (0..16).collect();
    let desc: Vec<u8> = (0..16).rev().collect();
    let mut orders: Vec<Vec<u8>> = vec![asc.clone(), desc.clone()];
    for _ in 0..cfg.size(1, 4, 24) {
        let mut o = asc.clone();
        for i in (1..16).rev() {
            let j = rng.below(i as u64 + 1) as usize;
            o.swap(i, j);
        }
        orders.push(o);
    }
    let step = if timeout == u64::MAX || timeout == 0 { TICK } else { timeout };
    let mut scenarios = 0u64;
    for o1 in &orders {
        for o2 in &orders {
            for variant in 0..3u8 {
                let mut iso = Iso::<S>::new(timeout, [o1[0], o2[0]]);
                let mut hist: Vec<Ev> = Vec::new();
                macro_rules! ap {
                    ($e:expr) => {{
                        let e: Ev = $e;
                        hist.push(e);
                        let h = &hist;
                        iso.apply(&e, rep, &|| h.iter().map(|e| e.render()).collect());
                    }};
                }
                // phase 1: every channel selects its own number and sends a data entry MSB
                for &c in o1 {
                    ap!(Ev::cc(c, 99, c));
                    ap!(Ev::cc(c, 98, 15 - c));
                    if variant == 2 {
                        ap!(Ev::cc(c, 38, c + 1)); // an unpaired LSB first
                    }
                    ap!(Ev::cc(c, 6, 100 + c));
                }
                // phase 2: time passes (or not), the channels are served in another order
                if variant != 1 {
                    ap!(Ev::Tick(step));
                }
                for &c in o2 {
                    ap!(Ev::Poll(c));
                    if variant == 1 {
                        ap!(Ev::cc(c, 38, c)); // completes the pair instead
                    }
                }
                // phase 3: once more, now in the first order; then everything is polled late
                for &c in o1 {
                    ap!(Ev::cc(c, 6, 50 + c));
                }
                ap!(Ev::Tick(step.saturating_mul(3)));
                for &c in o2 {
                    ap!(Ev::Poll(c));
                    ap!(Ev::Poll(c));
                }
                // phase 4: only the last channel of the order gets new input
                let last = *o2.last().unwrap();
                ap!(Ev::cc(last, 6, 7));
                ap!(Ev::Tick(step));
                ap!(Ev::Poll(last));
                scenarios += 1;
                rep.evaluations += hist.len() as u64;
                if rep.own_violations(&cfg.prop) >= 20 {
                    break;
                }
            }
        }
    }
    rep.count(&format!("c15_{}_all_16_channels_busy_scenarios", S::NAME), scenarios);
}

pub fn run_c15(cfg: &Cfg, rep: &mut Report) {
    rep.rule("lock-step differential twins: one shared scanner receives the interleaved stream, 16 solo scanners each receive only their channel's feeds/polls at the same (mock) clock instants; every output of the shared scanner must equal the solo scanner's and carry the triggering channel; system messages (all 16 status bytes) go to the shared scanner only and must return nothing and leave it equal. Exhaustive two-channel product to a fixpoint for ordered channel pairs (quick: 32 pairs, thorough: all 240) for all three scanners; seeded random interleavings of up to 16 channels over the full alphabet; distinct_nontrivial = explorer states + random interleavings with at least one report ; pair explorers rotate the abstract value per pair and additionally explore manager/member channel pairs (0,3), (15,12), (0,1) with spec-dictionary values {0,6}/{0,3} on the manager channel");
    c15_for::<ControlChange14BitMessageScanner>(cfg, rep, &[0]);
    c15_for::<ParameterNumberMessageScanner>(cfg, rep, &[0]);
    #[cfg(feature = "std")]
    c15_for::<PollingParameterNumberMessageScanner>(cfg, rep, if cfg.as_c18 { &[2 * TICK] } else { &[0, 2 * TICK] });
    c15_all_channels_busy::<ControlChange14BitMessageScanner>(cfg, rep, 0);
    c15_all_channels_busy::<ParameterNumberMessageScanner>(cfg, rep, 0);
    #[cfg(feature = "std")]
    for t in [2 * TICK, 0, u64::MAX] {
        c15_all_channels_busy::<PollingParameterNumberMessageScanner>(cfg, rep, t);
    }
    rep.rule("all 16 channels busy at once (every channel selects a number and holds a data entry MSB; the polling scanner has all 16 pending together) in ascending, descending and seeded channel orders, served in another order, twice");
    rep.set_exhaustive(false);
    rep.sample(json!({"stream":["B5 63 03","B6 63 04","B5 62 25","B6 62 26","B5 06 7E","B6 06 7D"],"expected":"channel 5 and channel 6 each report exactly what a scanner of their own reports"}));
}

// =====================================================================================
// C16
// =====================================================================================

fn noncontributing_messages<S: AnyScan>(own: u8, full: bool) -> Vec<Ev> {
    let mut v = Vec::new();
    let other = (own + 5) % 16;
    // every non-Control-Change status byte
    for s in 0x80u16..=0xFF {
        let s = s as u8;
        if s & 0xF0 == 0xB0 {
            continue;
        }
        let own_chan = s < 0xF0 && (s & 0x0F) == own;
        if full && own_chan {
            for a in 0u8..128 {
                for b in [0u8, 1, 6, 38, 64, 127] {
                    v.push(Ev::Msg(s, a, b));
                    v.push(Ev::Msg(s, b, a));
                }
            }
        } else {
            for (a, b) in [(0u8, 0u8), (6, 38), (38, 6), (99, 98), (101, 100), (96, 97), (1, 33), (127, 127), (64, 0)] {
                v.push(Ev::Msg(s, a, b));
            }
        }
    }
    // every non-contributing controller number x all values, own channel and one other channel
    for n in 0u8..128 {
        if S::contributing(n) {
            continue;
        }
        for val in 0u8..128 {
            v.push(Ev::cc(own, n, val));
            if full || val % 16 == 0 {
                v.push(Ev::cc(other, n, val));
            }
        }
    }
    v
}

/// explorer system: the scanner alone; visitor feeds every non-contributing message to a copy
#[derive(Clone)]
struct Transp<S: AnyScan> {
    s: S,
    now: u64,
    timeout: u64,
    cap: u64,
    chan: u8,
    msgs: std::sync::Arc<Vec<Ev>>,
}

impl<S: AnyScan> Sys for Transp<S> {
    type Sym = Ev;
    fn key(&self, buf: &mut Vec<u8>, scratch: &mut String) {
        key_of(&self.s, self.now, self.cap, buf, scratch);
    }
    fn step(&mut self, sym: &Ev, _rep: &mut Report, _path: &dyn Fn() -> Vec<String>) {
        match sym {
            Ev::Tick(n) => self.now = self.now.saturating_add(*n),
            Ev::TickPoll(n, c) => {
                self.now = self.now.saturating_add(*n);
                set_clock(self.now);
                self.s.poll_c(*c);
            }
            Ev::Reset => {
                set_clock(self.now);
                self.s.reset_s();
            }
            Ev::Msg(a, b, c) => {
                set_clock(self.now);
                self.s.feed_m(&raw(*a, *b, *c));
            }
            Ev::Poll(c) => {
                set_clock(self.now);
                self.s.poll_c(*c);
            }
        }
    }
    fn render(sym: &Ev) -> String {
        sym.render()
    }
    fn visit(&self, rep: &mut Report, path: &dyn Fn() -> Vec<String>) {
        set_clock(self.now);
        let mut n = 0u64;
        for e in self.msgs.iter() {
            if let Ev::Msg(a, b, c) = e {
                let mut copy = self.s;
                let o = copy.feed_m(&raw(*a, *b, *c));
                n += 1;
                if o != Some(S::empty()) || copy != self.s {
                    crate::viol!(rep, 
                        format!("C16:{}:not-transparent", S::NAME),
                        format!(
                            "non-contributing message {} returned {:?}; state changed: {}",
                            e.render(),
                            o,
                            copy != self.s
                        ),
                        hj::<S>(self.timeout, &|| {
                            let mut p = path();
                            p.push(e.render());
                            p
                        }, "nothing, equal state".into(), format!("{:?}", o)),
                    );
                }
            }
        }
        // the same with the clock advanced first (polling scanner): a non-contributing message
        // must leave the scanner equal to its copy however long a value has been pending
        if S::HAS_POLL {
            #[cfg(feature = "std")]
            {
                let tt = if self.timeout == u64::MAX { 5 * TICK } else { self.timeout };
                let mut offsets = vec![1u64, tt, tt + 1];
                offsets.extend_from_slice(&crate::poll::hostile_ticks(tt / 2));
                for (k, e) in self.msgs.iter().enumerate() {
                    if k % 97 != 0 {
                        continue;
                    }
                    if let Ev::Msg(a, b, c) = e {
                        for off in &offsets {
                            set_clock(self.now.saturating_add(*off));
                            let mut copy = self.s;
                            let o = copy.feed_m(&raw(*a, *b, *c));
                            n += 1;
                            if o != Some(S::empty()) || copy != self.s {
                                crate::viol!(
                                    rep,
                                    format!("C16:{}:not-transparent-after-waiting", S::NAME),
                                    format!("non-contributing message {} fed {} ns later returned {:?}; state changed: {}", e.render(), off, o, copy != self.s),
                                    hj::<S>(self.timeout, &|| {
                                        let mut p = path();
                                        p.push(format!("tick {}", off));
                                        p.push(e.render());
                                        p
                                    }, "nothing, equal state".into(), format!("{:?}", o))
                                );
                            }
                        }
                    }
                }
                set_clock(self.now);
                rep.count("c16_polling_states_checked_with_clock_offsets", 1);
            }
        }
        rep.evaluations += n;
        rep.count(&format!("c16_{}_states_visited", S::NAME), 1);
        rep.count(&format!("c16_{}_noncontributing_feeds", S::NAME), n);
        let _ = self.chan;
    }
}

fn c16_for<S: AnyScan>(cfg: &Cfg, rep: &mut Report, timeouts: &[u64]) {
    let full = cfg.thorough && cfg.release && !cfg.as_c18;
    let vp = crate::util::value_pairs(cfg, 0xC16, 2);
    let mut setups: Vec<(u64, u8, [u8; 2])> = timeouts.iter().map(|t| (*t, 4u8, [0u8, 1u8])).collect();
    for (i, p) in vp.iter().enumerate().skip(1) {
        setups.push((*timeouts.last().unwrap(), crate::util::rotating_channel(cfg, i), *p));
    }
    if S::NAME != "cc14" {
        for (i, p) in crate::util::dict_pairs(cfg, 2, 1).iter().enumerate() {
            setups.push((*timeouts.last().unwrap(), [0u8, 15, 9][i % 3], *p));
        }
    }
    for (t, chan, vals) in setups {
        let mut msgs = noncontributing_messages::<S>(chan, full);
        if cfg.as_c18 && !cfg.thorough {
            msgs = msgs.into_iter().step_by(23).collect();
        }
        rep.count(&format!("c16_{}_noncontributing_messages", S::NAME), msgs.len() as u64);
        let alpha = if S::NAME == "cc14" {
            super::cc14::c08_alphabet_v(false, chan, &[vals[0], vals[1], 127])
        } else {
            S::alphabet(&[chan], !cfg.as_c18, &vals)
        };
        let init = Transp::<S> {
            s: S::make(t),
            now: 0,
            timeout: t,
            cap: if t == u64::MAX { 3 * TICK } else { t },
            chan,
            msgs: std::sync::Arc::new(msgs),
        };
        let (st, _) = explore(cfg, init, &alpha, 60_000, rep, false);
        rep.states += st.states;
        rep.transitions += st.transitions;
        rep.distinct_nontrivial += st.states;
        rep.notes.insert(
            format!("state_explorer_{}_t{}_ch{}_values{:?}", S::NAME, if t == u64::MAX { "inf".to_string() } else { t.to_string() }, chan, vals),
            json!({"states":st.states,"transitions":st.transitions,"depth":st.depth,"fixpoint_reached":st.fixpoint}),
        );
        if !st.fixpoint {
            rep.inconclusive(format!("C16 state explorer for {} did not reach a fixpoint", S::NAME));
        }
    }
    // twin comparison: a history with random non-contributing insertions vs the same history without
    let total = cfg.size(1_000, 2_000_000, 60_000_000);
    let timeouts: Vec<u64> = timeouts.to_vec();
    par(cfg, rep, |shard, nsh, rep| {
        let mut rng = Rng::derive(cfg.seed, 0xC16_00 + shard as u64 + S::NAME.len() as u64 * 1000);
        let per = total / nsh as u64;
        let mut done = 0;
        let mut hc = 0;
        let mut with_report = 0;
        while done < per {
            let t = *rng.pick(&timeouts);
            let tt = if t == u64::MAX { 5 * TICK } else { t };
            let ticks = [1, tt / 2, tt.saturating_sub(1), tt, tt + 1];
            let len = rng.range(5, 120);
            let chans = *rng.pick(&[1u8, 2, 16]);
            let nvalues = *rng.pick(&[2u8, 4, 128, 200]);
            let mut plain = S::make(t);
            let mut noisy = S::make(t);
            let mut now = 0u64;
            let mut hist: Vec<Ev> = Vec::new();
            let mut reported = false;
            for _ in 0..len {
                // insertions only into the noisy stream
                for _ in 0..rng.below(3) {
                    let c = rng.below(16) as u8;
                    let ins = match rng.below(4) {
                        0 => {
                            let mut n = rng.below(128) as u8;
                            while S::contributing(n) {
                                n = rng.below(128) as u8;
                            }
                            Ev::cc(c, n, rng.below(128) as u8)
                        }
                        1 => Ev::Msg(0xF0 + rng.below(16) as u8, rng.below(128) as u8, rng.below(128) as u8),
                        _ => {
                            let hi = *rng.pick(&[0x80u8, 0x90, 0xA0, 0xC0, 0xD0, 0xE0]);
                            Ev::Msg(hi | c, *rng.pick(&[6u8, 38, 96, 97, 98, 99, 100, 101, 0, 33]), rng.below(128) as u8)
                        }
                    };
                    if let Ev::Msg(a, b, c2) = ins {
                        hist.push(ins);
                        set_clock(now);
                        let o = noisy.feed_m(&raw(a, b, c2));
                        if o != Some(S::empty()) {
                            let h = &hist;
                            crate::viol!(rep, 
                                format!("C16:{}:inserted-message-reports", S::NAME),
                                format!("inserted non-contributing message {} returned {:?}", ins.render(), o),
                                hj::<S>(t, &|| h.iter().map(|e| e.render()).collect(), "nothing".into(), format!("{:?}", o)),
                            );
                        }
                    }
                }
                let e = S::random_event(&mut rng, chans, nvalues, &ticks);
                hist.push(e);
                let (o1, o2) = match e {
                    Ev::Tick(n) => {
                        now = now.saturating_add(n);
                        (Some(S::empty()), Some(S::empty()))
                    }
                    Ev::TickPoll(n, c) => {
                        now = now.saturating_add(n);
                        set_clock(now);
                        (plain.poll_c(c), noisy.poll_c(c))
                    }
                    Ev::Reset => {
                        set_clock(now);
                        plain.reset_s();
                        noisy.reset_s();
                        (Some(S::empty()), Some(S::empty()))
                    }
                    Ev::Msg(a, b, c2) => {
                        set_clock(now);
                        let m = raw(a, b, c2);
                        (plain.feed_m(&m), noisy.feed_m(&m))
                    }
                    Ev::Poll(c) => {
                        set_clock(now);
                        (plain.poll_c(c), noisy.poll_c(c))
                    }
                };
                if o1 != Some(S::empty()) {
                    reported = true;
                }
                if o1 != o2 || plain != noisy {
                    let h = &hist;
                    crate::viol!(rep, 
                        format!("C16:{}:insertions-change-the-rest-of-the-stream", S::NAME),
                        format!("{}: stream with insertions returned {:?}, stream without returned {:?}; states equal: {}", e.render(), o2, o1, plain == noisy),
                        hj::<S>(t, &|| h.iter().map(|e| e.render()).collect(), format!("{:?}", o1), format!("{:?}", o2)),
                    );
                    break;
                }
            }
            done += len;
            hc += 1;
            with_report += reported as u64;
        }
        rep.evaluations += done;
        rep.distinct_nontrivial += with_report;
        rep.count(&format!("c16_{}_insertion_twin_histories", S::NAME), hc);
    });
}

pub fn run_c16(cfg: &Cfg, rep: &mut Report) {
    rep.rule("every reachable state of each scanner (fixpoint over an abstracted contributing alphabet; polling: timeouts {0, 2 ticks}) x every non-contributing message (all 112 non-CC status bytes x sampled data bytes — thorough/release: all data bytes on the state's own channel —, every non-contributing controller number x all 128 values on the own channel and another channel): feed returns nothing and the scanner compares equal to its copy; twin comparison of seeded random histories with and without random non-contributing insertions; predicates on all 128 controller numbers and the named *_LSB constants; distinct_nontrivial = states visited + twin histories with a report ; state explorers rotate abstract values/channels and include spec-dictionary pairs");
    c16_for::<ControlChange14BitMessageScanner>(cfg, rep, &[0]);
    c16_for::<ParameterNumberMessageScanner>(cfg, rep, &[0]);
    #[cfg(feature = "std")]
    c16_for::<PollingParameterNumberMessageScanner>(cfg, rep, if cfg.as_c18 { &[2 * TICK] } else { &[0, 2 * TICK] });
    // predicates
    for n in 0u8..128 {
        let c = cn(n);
        let r = api("ControllerNumber::{can_be_part_of_14_bit_control_change_message,corresponding_14_bit_lsb_controller_number,is_parameter_number_message_controller_number}", || {
            (
                c.can_be_part_of_14_bit_control_change_message(),
                c.corresponding_14_bit_lsb_controller_number(),
                c.is_parameter_number_message_controller_number(),
            )
        });
        rep.evaluations += 1;
        let want = (n < 64, if n < 32 { Some(n + 32) } else { None }, is_pn_controller(n));
        let got = r.map(|(a, b, c)| (a, b.map(|x| x.get()), c));
        if got != Some(want) {
            crate::viol!(rep, 
                format!("C16:predicate:cn{}", n),
                format!("controller number {}: (can_be_part_of_14_bit, corresponding_lsb, is_parameter_number) = {:?}, expected {:?}", n, got, want),
                json!({"kind":"predicate","controller_number":n}),
            );
        }
    }
    use helgoboss_midi::controller_numbers as k;
    let pairs: [(&str, ControllerNumber, ControllerNumber, u8); 16] = [
        ("BANK_SELECT", k::BANK_SELECT, k::BANK_SELECT_LSB, 0),
        ("MODULATION_WHEEL", k::MODULATION_WHEEL, k::MODULATION_WHEEL_LSB, 1),
        ("BREATH_CONTROLLER", k::BREATH_CONTROLLER, k::BREATH_CONTROLLER_LSB, 2),
        ("FOOT_CONTROLLER", k::FOOT_CONTROLLER, k::FOOT_CONTROLLER_LSB, 4),
        ("PORTAMENTO_TIME", k::PORTAMENTO_TIME, k::PORTAMENTO_TIME_LSB, 5),
        ("DATA_ENTRY_MSB", k::DATA_ENTRY_MSB, k::DATA_ENTRY_MSB_LSB, 6),
        ("CHANNEL_VOLUME", k::CHANNEL_VOLUME, k::CHANNEL_VOLUME_LSB, 7),
        ("BALANCE", k::BALANCE, k::BALANCE_LSB, 8),
        ("PAN", k::PAN, k::PAN_LSB, 10),
        ("EXPRESSION_CONTROLLER", k::EXPRESSION_CONTROLLER, k::EXPRESSION_CONTROLLER_LSB, 11),
        ("EFFECT_CONTROL_1", k::EFFECT_CONTROL_1, k::EFFECT_CONTROL_1_LSB, 12),
        ("EFFECT_CONTROL_2", k::EFFECT_CONTROL_2, k::EFFECT_CONTROL_2_LSB, 13),
        ("GENERAL_PURPOSE_CONTROLLER_1", k::GENERAL_PURPOSE_CONTROLLER_1, k::GENERAL_PURPOSE_CONTROLLER_1_LSB, 16),
        ("GENERAL_PURPOSE_CONTROLLER_2", k::GENERAL_PURPOSE_CONTROLLER_2, k::GENERAL_PURPOSE_CONTROLLER_2_LSB, 17),
        ("GENERAL_PURPOSE_CONTROLLER_3", k::GENERAL_PURPOSE_CONTROLLER_3, k::GENERAL_PURPOSE_CONTROLLER_3_LSB, 18),
        ("GENERAL_PURPOSE_CONTROLLER_4", k::GENERAL_PURPOSE_CONTROLLER_4, k::GENERAL_PURPOSE_CONTROLLER_4_LSB, 19),
    ];
    for (name, m, l, midi) in pairs.iter() {
        rep.evaluations += 1;
        if l.get() != m.get() + 32 || m.get() != *midi || m.corresponding_14_bit_lsb_controller_number() != Some(*l) {
            crate::viol!(rep, 
                format!("C16:constant:{}", name),
                format!("{} = {}, {}_LSB = {} (MIDI 1.0: {} and {})", name, m.get(), name, l.get(), midi, midi + 32),
                json!({"kind":"constant","name":name}),
            );
        }
    }
    let named: [(&str, ControllerNumber, u8); 8] = [
        ("DATA_ENTRY_MSB", k::DATA_ENTRY_MSB, 6),
        ("DATA_ENTRY_MSB_LSB", k::DATA_ENTRY_MSB_LSB, 38),
        ("DATA_INCREMENT", k::DATA_INCREMENT, 96),
        ("DATA_DECREMENT", k::DATA_DECREMENT, 97),
        ("NON_REGISTERED_PARAMETER_NUMBER_LSB", k::NON_REGISTERED_PARAMETER_NUMBER_LSB, 98),
        ("NON_REGISTERED_PARAMETER_NUMBER_MSB", k::NON_REGISTERED_PARAMETER_NUMBER_MSB, 99),
        ("REGISTERED_PARAMETER_NUMBER_LSB", k::REGISTERED_PARAMETER_NUMBER_LSB, 100),
        ("REGISTERED_PARAMETER_NUMBER_MSB", k::REGISTERED_PARAMETER_NUMBER_MSB, 101),
    ];
    for (name, c, midi) in named.iter() {
        rep.evaluations += 1;
        if c.get() != *midi || !c.is_parameter_number_message_controller_number() {
            crate::viol!(rep, 
                format!("C16:constant:{}", name),
                format!("{} = {} (MIDI 1.0: {})", name, c.get(), midi),
                json!({"kind":"constant","name":name}),
            );
        }
    }
    rep.count("c16_predicates_checked", 128);
    rep.count("c16_constant_pairs_checked", 16);
    rep.set_exhaustive(false);
    rep.sample(json!({"state":"polling scanner with a pending data entry MSB","message":"B4 07 64 (channel volume)","expected":"[None, None], scanner == copy before"}));
    rep.sample(json!({"state":"cc14 scanner with stored MSB","message":"94 06 26 (note on with data bytes 6, 38)","expected":"None, equal state"}));
}

// =====================================================================================
// C17
// =====================================================================================

#[derive(Clone)]
struct ResetSys<S: AnyScan> {
    s: S,
    now: u64,
    timeout: u64,
    cap: u64,
    chans: [u8; 2],
    seed: u64,
}

fn apply_plain<S: AnyScan>(s: &mut S, now: &mut u64, e: &Ev) -> Option<S::Out> {
    match e {
        Ev::Tick(n) => {
            *now = now.saturating_add(*n);
            Some(S::empty())
        }
        Ev::TickPoll(n, c) => {
            *now = now.saturating_add(*n);
            set_clock(*now);
            s.poll_c(*c)
        }
        Ev::Reset => {
            set_clock(*now);
            s.reset_s().map(|_| S::empty())
        }
        Ev::Msg(a, b, c) => {
            set_clock(*now);
            s.feed_m(&raw(*a, *b, *c))
        }
        Ev::Poll(c) => {
            set_clock(*now);
            s.poll_c(*c)
        }
    }
}

fn c17_checks<S: AnyScan>(s: &S, now: u64, timeout: u64, rng: &mut Rng, chans: u8, rep: &mut Report, path: &dyn Fn() -> Vec<String>) {
    let tt = if timeout == u64::MAX { 5 * TICK } else { timeout };
    let ticks = [1, tt / 2, tt.saturating_sub(1), tt, tt + 1];
    // reset == new(timeout)
    set_clock(now);
    let mut r = *s;
    r.reset_s();
    let fresh = S::make(timeout);
    rep.count(&format!("c17_{}_resets_checked", S::NAME), 1);
    if r != fresh {
        crate::viol!(rep, 
            format!("C17:{}:reset-not-equal-new", S::NAME),
            "after reset() the scanner does not compare equal to a newly created one (same timeout)".to_string(),
            hj::<S>(timeout, &|| {
                let mut p = path();
                p.push("reset".into());
                p
            }, "== new(timeout)".into(), format!("{:?}", r).chars().take(400).collect()),
        );
    }
    // lock-step suffix: the reset scanner vs a fresh one
    let len = rng.range(4, 24);
    let suffix: Vec<Ev> = (0..len)
        .map(|_| {
            let mut e = S::random_event(rng, chans, 3, &ticks);
            if matches!(e, Ev::Reset) {
                e = Ev::cc(0, 6, 1);
            }
            e
        })
        .collect();
    let (mut a, mut b) = (r, fresh);
    let (mut na, mut nb) = (now, now);
    for (i, e) in suffix.iter().enumerate() {
        let oa = apply_plain(&mut a, &mut na, e);
        let ob = apply_plain(&mut b, &mut nb, e);
        rep.evaluations += 1;
        if oa != ob || a != b {
            crate::viol!(rep, 
                format!("C17:{}:reset-scanner-diverges-from-new", S::NAME),
                format!("suffix event #{} ({}) returned {:?} on the reset scanner and {:?} on a new one; states equal: {}", i, e.render(), oa, ob, a == b),
                hj::<S>(timeout, &|| {
                    let mut p = path();
                    p.push("reset".into());
                    p.extend(suffix[..=i].iter().map(|e| e.render()));
                    p
                }, format!("{:?}", ob), format!("{:?}", oa)),
            );
            break;
        }
    }
    // copy: evolves identically to and independently of the original
    let snapshot = *s;
    let copy = *s;
    let mut orig = *s;
    let mut no = now;
    let mut outs_o = Vec::with_capacity(suffix.len());
    for e in &suffix {
        outs_o.push(apply_plain(&mut orig, &mut no, e));
    }
    if copy != snapshot {
        crate::viol!(rep, 
            format!("C17:{}:copy-not-independent", S::NAME),
            "a copy changed while the original was being fed".to_string(),
            hj::<S>(timeout, path, "copy == snapshot".into(), "copy changed".into()),
        );
    }
    let mut c2 = copy;
    let mut nc = now;
    for (i, e) in suffix.iter().enumerate() {
        let oc = apply_plain(&mut c2, &mut nc, e);
        if oc != outs_o[i] {
            crate::viol!(rep, 
                format!("C17:{}:copy-evolves-differently", S::NAME),
                format!("suffix event #{} ({}) returned {:?} on the copy and {:?} on the original", i, e.render(), oc, outs_o[i]),
                hj::<S>(timeout, &|| {
                    let mut p = path();
                    p.extend(suffix[..=i].iter().map(|e| e.render()));
                    p
                }, format!("{:?}", outs_o[i]), format!("{:?}", oc)),
            );
            break;
        }
    }
    if c2 != orig {
        crate::viol!(rep, 
            format!("C17:{}:copy-evolves-differently", S::NAME),
            "copy and original differ after the same suffix".to_string(),
            hj::<S>(timeout, path, "equal states".into(), "different states".into()),
        );
    }
    rep.count(&format!("c17_{}_copies_checked", S::NAME), 1);
}

impl<S: AnyScan> Sys for ResetSys<S> {
    type Sym = Ev;
    fn key(&self, buf: &mut Vec<u8>, scratch: &mut String) {
        key_of(&self.s, self.now, self.cap, buf, scratch);
    }
    fn step(&mut self, sym: &Ev, _rep: &mut Report, _path: &dyn Fn() -> Vec<String>) {
        apply_plain(&mut self.s, &mut self.now, sym);
    }
    fn render(sym: &Ev) -> String {
        sym.render()
    }
    fn visit(&self, rep: &mut Report, path: &dyn Fn() -> Vec<String>) {
        let mut buf = Vec::new();
        let mut scratch = String::new();
        self.key(&mut buf, &mut scratch);
        let mut rng = Rng::derive(self.seed, crate::util::hash128(&buf) as u64);
        for _ in 0..3 {
            c17_checks(&self.s, self.now, self.timeout, &mut rng, 16, rep, path);
        }
        let _ = self.chans;
    }
}

fn c17_for<S: AnyScan>(cfg: &Cfg, rep: &mut Report, timeouts: &[u64]) {
    let vp = crate::util::value_pairs(cfg, 0xC17, 2);
    let mut setups: Vec<(u64, [u8; 2], [u8; 2])> = timeouts.iter().map(|t| (*t, [3u8, 12u8], [0u8, 1u8])).collect();
    for (i, p) in vp.iter().enumerate().skip(1) {
        let (a, b) = (crate::util::rotating_channel(cfg, i), crate::util::rotating_channel(cfg, i + 7));
        setups.push((*timeouts.last().unwrap(), [a, b], *p));
    }
    if S::NAME != "cc14" && !cfg.as_c18 {
        for (i, p) in crate::util::dict_pairs(cfg, 2, 1).iter().enumerate() {
            setups.push((*timeouts.last().unwrap(), [[0u8, 15, 9][i % 3], 3], *p));
        }
    }
    for (t, chans, vals) in setups {
        let alpha = if S::NAME == "cc14" {
            super::cc14::c08_alphabet_v(false, chans[0], &[vals[0], vals[1], 127])
        } else {
            S::alphabet(if cfg.as_c18 { &chans[..1] } else { &chans[..] }, false, &vals)
        };
        let init = ResetSys::<S> {
            s: S::make(t),
            now: 0,
            timeout: t,
            cap: if t == u64::MAX { 3 * TICK } else { t },
            chans,
            seed: cfg.seed,
        };
        let (st, _) = explore(cfg, init, &alpha, 80_000, rep, false);
        rep.states += st.states;
        rep.transitions += st.transitions;
        rep.distinct_nontrivial += st.states;
        rep.notes.insert(
            format!("state_explorer_{}_t{}_ch{:?}_values{:?}", S::NAME, if t == u64::MAX { "inf".to_string() } else { t.to_string() }, chans, vals),
            json!({"states":st.states,"transitions":st.transitions,"depth":st.depth,"fixpoint_reached":st.fixpoint}),
        );
        if !st.fixpoint {
            rep.inconclusive(format!("C17 state explorer for {} did not reach a fixpoint", S::NAME));
        }
    }
    // random full-alphabet states
    let total = cfg.size(200, 150_000, 3_000_000);
    let timeouts: Vec<u64> = timeouts.to_vec();
    par(cfg, rep, |shard, nsh, rep| {
        let mut rng = Rng::derive(cfg.seed, 0xC17_00 + shard as u64 + S::NAME.len() as u64 * 1000);
        for _ in 0..total / nsh as u64 {
            let t = *rng.pick(&timeouts);
            let tt = if t == u64::MAX { 5 * TICK } else { t };
            let ticks = [1, tt / 2, tt.saturating_sub(1), tt, tt + 1];
            let mut s = S::make(t);
            let mut now = *rng.pick(&[0u64, 1 << 33]);
            let len = rng.range(0, 60);
            let mut hist: Vec<Ev> = vec![Ev::Tick(now)];
            if rng.chance(1, 4) {
                // every one of the 16 channels has made progress when the reset comes (summaries
                // of per-channel state such as dirty masks or counts are full exactly then)
                let mut order: Vec<u8> = (0..16).collect();
                for i in (1..16).rev() {
                    let j = rng.below(i as u64 + 1) as usize;
                    order.swap(i, j);
                }
                let depth = rng.below(4);
                for &c in &order {
                    let v = rng.below(128) as u8;
                    let evs = [Ev::cc(c, 99, v), Ev::cc(c, 98, v), Ev::cc(c, 38, v), Ev::cc(c, 6, v)];
                    for e in evs.iter().take(1 + depth as usize) {
                        hist.push(*e);
                        apply_plain(&mut s, &mut now, e);
                    }
                    if S::NAME == "cc14" {
                        let e = Ev::cc(c, rng.below(32) as u8, v);
                        hist.push(e);
                        apply_plain(&mut s, &mut now, &e);
                    }
                }
                rep.count(&format!("c17_{}_states_with_all_16_channels_in_progress", S::NAME), 1);
            }
            for _ in 0..(if hist.len() > 1 { len / 6 } else { len }) {
                let e = S::random_event(&mut rng, 16, 128, &ticks);
                hist.push(e);
                apply_plain(&mut s, &mut now, &e);
            }
            let h = &hist;
            c17_checks(&s, now, t, &mut rng, 16, rep, &|| h.iter().map(|e| e.render()).collect());
            rep.distinct_nontrivial += 1;
        }
    });
    // new() == default()
    set_clock(0);
    let d = S::make_default();
    let n = S::make(0);
    rep.evaluations += 1;
    if d != n {
        crate::viol!(rep, 
            format!("C17:{}:new-differs-from-default", S::NAME),
            "new() (polling: new(zero timeout)) does not compare equal to default()".to_string(),
            json!({"kind":"new-vs-default","scanner":S::NAME}),
        );
    }
    if S::HAS_POLL {
        // default() behaves as a zero timeout: a pending MSB is reported by an immediate poll
        let mut s = S::make_default();
        let mut now = 5u64;
        let evs = [Ev::cc(1, 99, 1), Ev::cc(1, 98, 2), Ev::cc(1, 6, 3), Ev::Poll(1)];
        let mut last = None;
        for e in &evs {
            last = apply_plain(&mut s, &mut now, e);
        }
        let mut z = S::make(0);
        let mut nz = 5u64;
        let mut lastz = None;
        for e in &evs {
            lastz = apply_plain(&mut z, &mut nz, e);
        }
        if last != lastz || last == Some(S::empty()) {
            crate::viol!(rep, 
                format!("C17:{}:default-is-not-zero-timeout", S::NAME),
                format!("default() scanner polled immediately returned {:?}, new(0) returned {:?}", last, lastz),
                json!({"kind":"new-vs-default","scanner":S::NAME}),
            );
        }
    }
}

pub fn run_c17(cfg: &Cfg, rep: &mut Report) {
    rep.rule("for every reachable state of each scanner (fixpoint over an abstracted alphabet on two channels; polling: timeouts {0, 2 ticks, 5 ticks}) and for seeded random full-alphabet states: reset() then == new(same timeout); lock-step of the reset scanner and a new one over seeded suffixes (equal outputs and equal states at every step); a copy stays equal to its snapshot while the original evolves and then evolves identically; new() == default() (polling: default() == new(0) and behaves as zero timeout); distinct_nontrivial = states checked ; state explorers rotate abstract values/channels and include spec-dictionary pairs");
    c17_for::<ControlChange14BitMessageScanner>(cfg, rep, &[0]);
    c17_for::<ParameterNumberMessageScanner>(cfg, rep, &[0]);
    #[cfg(feature = "std")]
    c17_for::<PollingParameterNumberMessageScanner>(cfg, rep, if cfg.as_c18 { &[2 * TICK] } else { &[0, 2 * TICK, 5 * TICK] });
    rep.set_exhaustive(false);
    rep.sample(json!({"prior_history":["B3 63 01","B3 62 01","B3 06 01"],"then":"reset","expected":"== PollingParameterNumberMessageScanner::new(timeout); suffix B3 06 01 / tick / poll 3 returns nothing on both"}));
}
