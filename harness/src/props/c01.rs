//! C01 — Short messages preserve their bytes: lossless, canonical round trips.
//! Exhaustive over all 256x128x128 triples x 3 factories, all 1 331 461 structured values,
//! all quarter frames and all type bytes.

use crate::carriers::*;
use crate::mon::{api, Observe};
use crate::report::Report;
use crate::spec::*;
use crate::util::{par, Cfg};
use helgoboss_midi::*;
use serde_json::json;

fn check_factory<F>(name: &'static str, structured: bool, s: u8, d1: u8, d2: u8, rep: &mut Report)
where
    F: ShortMessageFactory + Observe + Copy + std::fmt::Debug,
{
    let r = api("ShortMessageFactory::from_bytes", || {
        F::from_bytes((s, u7(d1), u7(d2)))
    });
    let Some(r) = r else {
        crate::viol!(rep, 
            format!("C01:panic:from_bytes:{}", name),
            format!("{}::from_bytes(({},{},{})) panicked", name, s, d1, d2),
            json!({"kind":"triple","carrier":name,"status":s,"d1":d1,"d2":d2}),
        );
        return;
    };
    let should_ok = s >= 0x80;
    if r.is_ok() != should_ok {
        crate::viol!(rep, 
            format!("C01:accept:{}:{}", name, if should_ok { "rejects-valid" } else { "accepts-invalid" }),
            format!(
                "{}::from_bytes(({},{},{})) returned {} but status byte {} 0x80",
                name,
                s,
                d1,
                d2,
                if r.is_ok() { "Ok" } else { "Err" },
                if should_ok { ">=" } else { "<" }
            ),
            json!({"kind":"triple","carrier":name,"status":s,"d1":d1,"d2":d2}),
        );
        return;
    }
    let Ok(m) = r else { return };
    let got = api("ShortMessage::to_bytes+getters", || {
        (m.to_bytes(), (m.status_byte(), m.data_byte_1(), m.data_byte_2()))
    });
    let Some((tb, gb)) = got else {
        crate::viol!(rep, 
            format!("C01:panic:getters:{}:{}", name, type_name(s)),
            format!("byte getters of {}::from_bytes(({},{},{})) panicked", name, s, d1, d2),
            json!({"kind":"triple","carrier":name,"status":s,"d1":d1,"d2":d2}),
        );
        return;
    };
    let exp = if structured { canon(s, d1, d2) } else { (s, d1, d2) };
    let tbn = (tb.0, tb.1.get(), tb.2.get());
    let gbn = (gb.0, gb.1.get(), gb.2.get());
    if tbn != exp || gbn != exp {
        crate::viol!(rep, 
            format!("C01:bytes:{}:{}", name, type_name(s)),
            format!(
                "{}::from_bytes(({},{},{})): to_bytes()={:?} getters={:?} expected {:?}",
                name, s, d1, d2, tbn, gbn, exp
            ),
            json!({"kind":"triple","carrier":name,"status":s,"d1":d1,"d2":d2,"expected":[exp.0,exp.1,exp.2],"to_bytes":[tbn.0,tbn.1,tbn.2],"getters":[gbn.0,gbn.1,gbn.2]}),
        );
    }
}

fn check_raw_extra(s: u8, d1: u8, d2: u8, rep: &mut Report) {
    // Into<(u8,U7,U7)>, TryFrom<(u8,U7,U7)>, raw -> structured -> raw idempotence
    let r = api("RawShortMessage::try_from+into+roundtrip", || {
        let m = RawShortMessage::try_from((s, u7(d1), u7(d2)));
        m.map(|m| {
            let t: (u8, U7, U7) = m.into();
            let st = m.to_structured();
            let r1: RawShortMessage = st.to_other();
            let r2: RawShortMessage = r1.to_structured().to_other();
            let r3 = RawShortMessage::from_other(&st);
            (t, r1.to_bytes(), r2.to_bytes(), r3.to_bytes(), r1 == r2, r1 == r3)
        })
    });
    let rp = json!({"kind":"triple","carrier":"Raw","status":s,"d1":d1,"d2":d2});
    match r {
        None => crate::viol!(rep, 
            format!("C01:panic:raw-roundtrip:{}", type_name(s)),
            format!("raw round trip of ({},{},{}) panicked", s, d1, d2),
            rp,
        ),
        Some(Err(_)) => {
            if s >= 0x80 {
                crate::viol!(rep, 
                    "C01:accept:RawTryFrom:rejects-valid",
                    format!("RawShortMessage::try_from(({},{},{})) failed", s, d1, d2),
                    rp,
                );
            }
        }
        Some(Ok((t, b1, b2, b3, e12, e13))) => {
            if s < 0x80 {
                crate::viol!(rep, 
                    "C01:accept:RawTryFrom:accepts-invalid",
                    format!("RawShortMessage::try_from(({},{},{})) succeeded", s, d1, d2),
                    rp,
                );
                return;
            }
            let n = |b: (u8, U7, U7)| (b.0, b.1.get(), b.2.get());
            if n(t) != (s, d1, d2) {
                crate::viol!(rep, 
                    format!("C01:raw-into-tuple:{}", type_name(s)),
                    format!("Into<(u8,U7,U7)> of raw ({},{},{}) gave {:?}", s, d1, d2, n(t)),
                    rp.clone(),
                );
            }
            let c = canon(s, d1, d2);
            if n(b1) != c || n(b2) != c || n(b3) != c || !e12 || !e13 {
                crate::viol!(rep, 
                    format!("C01:raw-structured-raw:{}", type_name(s)),
                    format!(
                        "raw->structured->raw of ({},{},{}): once={:?} twice={:?} from_other={:?} expected {:?}",
                        s, d1, d2, n(b1), n(b2), n(b3), c
                    ),
                    rp,
                );
            }
        }
    }
}

fn check_structured_value(s: u8, d1: u8, d2: u8, rep: &mut Report) {
    // (s,d1,d2) is canonical here; v is the enum literal built from the fields
    let v = structured_of(s, d1, d2);
    let r = api("StructuredShortMessage round trips", || {
        let b = v.to_bytes();
        let back = StructuredShortMessage::from_bytes(b);
        let raw: RawShortMessage = v.to_other();
        let via_raw = raw.to_structured();
        let same = v.to_structured();
        let raw2 = RawShortMessage::from_other(&v);
        let via_foreign: Foreign = v.to_other();
        (b, back, via_raw, same, raw2.to_bytes(), raw.to_bytes(), via_foreign.to_structured())
    });
    let rp = json!({"kind":"structured","status":s,"d1":d1,"d2":d2,"value":format!("{:?}", v)});
    let Some((b, back, via_raw, same, rb2, rb, via_foreign)) = r else {
        crate::viol!(rep, 
            format!("C01:panic:structured-roundtrip:{}", type_name(s)),
            format!("round trip of {:?} panicked", v),
            rp,
        );
        return;
    };
    let bn = (b.0, b.1.get(), b.2.get());
    if bn != (s, d1, d2) {
        crate::viol!(rep, 
            format!("C01:structured-to-bytes:{}", type_name(s)),
            format!("{:?}.to_bytes() = {:?}, expected {:?}", v, bn, (s, d1, d2)),
            rp.clone(),
        );
    }
    let ok = matches!(back, Ok(x) if x == v) && via_raw == v && same == v && via_foreign == v && rb2 == b && rb == b;
    if !ok {
        crate::viol!(rep, 
            format!("C01:structured-roundtrip:{}", type_name(s)),
            format!(
                "{:?}: from_bytes(to_bytes)={:?} via_raw={:?} to_structured={:?} via_foreign={:?} raw bytes {:?}/{:?}",
                v, back, via_raw, same, via_foreign, rb, rb2
            ),
            rp,
        );
    }
}

pub fn run(cfg: &Cfg, rep: &mut Report) {
    rep.rule("all 256x128x128 (status,d1,d2) triples through from_bytes of RawShortMessage, StructuredShortMessage and a foreign implementor; every StructuredShortMessage value as an enum literal (one per canonical triple); non-trivial = valid status and a non-zero data byte; distinct by construction (enumeration without repetition)");
    // When running as a C18 sub-workload the sweep is thinned (every 5th d2) unless thorough.
    let stride: usize = if cfg.as_c18 && !cfg.thorough { 5 } else if cfg.secondary && !cfg.thorough { 3 } else { 1 };
    par(cfg, rep, |shard, n, rep| {
        let mut evals = 0u64;
        let mut nontrivial = 0u64;
        let mut structured_values = 0u64;
        for s in (shard..256).step_by(n) {
            let s = s as u8;
            for d1 in 0u8..128 {
                for d2 in (0u8..128).step_by(stride) {
                    crate::mon::set_case("triple", [s as i64, d1 as i64, d2 as i64, 0, 0, 0]);
                    check_factory::<RawShortMessage>("Raw", false, s, d1, d2, rep);
                    check_factory::<StructuredShortMessage>("Structured", true, s, d1, d2, rep);
                    check_factory::<Foreign>("Foreign", false, s, d1, d2, rep);
                    // implementors that rely on the contract of from_bytes_unchecked
                    check_factory::<ForeignEvent>("ForeignEvent", true, s, d1, d2, rep);
                    check_factory::<ForeignPacked>("ForeignPacked", false, s, d1, d2, rep);
                    check_raw_extra(s, d1, d2, rep);
                    evals += 6;
                    if s >= 0x80 {
                        if d1 != 0 || d2 != 0 {
                            nontrivial += 1;
                        }
                        if canon(s, d1, d2) == (s, d1, d2) {
                            check_structured_value(s, d1, d2, rep);
                            structured_values += 1;
                            evals += 1;
                        }
                    }
                }
            }
        }
        rep.evaluations += evals;
        rep.distinct_nontrivial += nontrivial;
        rep.count("structured_values_enumerated", structured_values);
        rep.count("triples_enumerated", 0);
    });
    rep.count("triples_enumerated", 256 * 128 * (128 / stride as u64 + if 128 % stride != 0 { 1 } else { 0 }));
    if stride == 1 {
        let sv = rep.counters.get("structured_values_enumerated").copied().unwrap_or(0);
        if sv != 1_331_461 {
            rep.inconclusive(format!("expected 1331461 structured values, enumerated {}", sv));
        }
        rep.set_exhaustive(true);
    } else {
        rep.set_exhaustive(false);
    }

    // --- quarter frame codec on its own
    for d1 in 0u8..128 {
        crate::mon::set_case("quarter-frame", [d1 as i64, 0, 0, 0, 0, 0]);
        let r = api("TimeCodeQuarterFrame<->U7", || {
            let f = TimeCodeQuarterFrame::from(u7(d1));
            let b = U7::from(f);
            (f, b, TimeCodeQuarterFrame::from(b))
        });
        rep.evaluations += 1;
        let exp_b = canon(0xF1, d1, 0).1;
        match r {
            None => crate::viol!(rep, 
                "C01:panic:quarter-frame",
                format!("quarter frame conversion of {} panicked", d1),
                json!({"kind":"quarter-frame","d1":d1}),
            ),
            Some((f, b, f2)) => {
                if f != quarter_frame(d1) || b.get() != exp_b || f2 != f {
                    crate::viol!(rep, 
                        "C01:quarter-frame-codec",
                        format!(
                            "U7({}) -> {:?} -> U7({}) -> {:?}; expected frame {:?}, byte {}",
                            d1,
                            f,
                            b.get(),
                            f2,
                            quarter_frame(d1),
                            exp_b
                        ),
                        json!({"kind":"quarter-frame","d1":d1}),
                    );
                }
            }
        }
    }
    let frames = all_quarter_frames();
    rep.count("quarter_frames", frames.len() as u64);
    for (d1, f) in &frames {
        let r = api("TimeCodeQuarterFrame<->U7", || {
            let b = U7::from(*f);
            (b, TimeCodeQuarterFrame::from(b))
        });
        rep.evaluations += 1;
        if !matches!(r, Some((b, f2)) if b.get() == *d1 && f2 == *f) {
            crate::viol!(rep, 
                "C01:quarter-frame-roundtrip",
                format!("{:?} -> {:?}; expected byte {}", f, r.map(|x| (x.0.get(), x.1)), d1),
                json!({"kind":"quarter-frame","d1":d1}),
            );
        }
    }

    // --- message type <-> u8
    let mut ok_bytes = 0;
    for b in 0u16..256 {
        let b = b as u8;
        crate::mon::set_case("type-byte", [b as i64, 0, 0, 0, 0, 0]);
        let r = api("ShortMessageType::try_from(u8)", || {
            ShortMessageType::try_from(b).map(|t| (t, u8::from(t))).ok()
        });
        rep.evaluations += 1;
        let exp = TYPES.iter().find(|t| t.0 == b);
        match (r, exp) {
            (None, _) => crate::viol!(rep, 
                "C01:panic:type-byte",
                format!("ShortMessageType::try_from({}) panicked", b),
                json!({"kind":"type-byte","byte":b}),
            ),
            (Some(None), None) => {}
            (Some(Some((t, back))), Some(e)) if t == e.1 && back == b => ok_bytes += 1,
            (Some(got), _) => crate::viol!(rep, 
                "C01:type-byte-codec",
                format!(
                    "ShortMessageType::try_from({}) = {:?}, expected {:?}",
                    b,
                    got,
                    exp.map(|e| e.2)
                ),
                json!({"kind":"type-byte","byte":b}),
            ),
        }
    }
    rep.count("type_bytes_accepted", ok_bytes);
    for t in TYPES.iter() {
        let r = api("u8::from(ShortMessageType)", || u8::from(t.1));
        rep.evaluations += 1;
        if r != Some(t.0) {
            crate::viol!(rep, 
                "C01:type-byte-codec",
                format!("u8::from({}) = {:?}, expected {}", t.2, r, t.0),
                json!({"kind":"type-byte","byte":t.0}),
            );
        }
    }
    rep.sample(json!({"triple":[0x93,60,0],"carriers":["Raw","Structured","Foreign"],"expected_structured_bytes":[0x93,60,0]}));
    rep.sample(json!({"triple":[0xC5,17,99],"expected_structured_bytes":[0xC5,17,0],"note":"unused data byte 2 reported as zero"}));
    rep.sample(json!({"triple":[0xF1,0x7F,3],"expected_structured_bytes":[0xF1,0x77,0],"note":"reserved bit of 'last' quarter frame cleared"}));
    rep.sample(json!({"structured_value": format!("{:?}", structured_of(0xE2, 5, 100))}));
}

/// thinned slice for the Miri side run (supporting evidence only)
pub fn miri_slice(rep: &mut Report) {
    for s in 0x70u16..=0xFF {
        for d1 in [0u8, 1, 0x75, 0x7F] {
            for d2 in [0u8, 127] {
                let s = s as u8;
                check_factory::<RawShortMessage>("Raw", false, s, d1, d2, rep);
                check_factory::<StructuredShortMessage>("Structured", true, s, d1, d2, rep);
                check_factory::<Foreign>("Foreign", false, s, d1, d2, rep);
                check_factory::<ForeignEvent>("ForeignEvent", true, s, d1, d2, rep);
                check_factory::<ForeignPacked>("ForeignPacked", false, s, d1, d2, rep);
                check_raw_extra(s, d1, d2, rep);
                if s >= 0x80 && canon(s, d1, d2) == (s, d1, d2) {
                    check_structured_value(s, d1, d2, rep);
                }
                rep.evaluations += 5;
            }
        }
    }
}
