//! C12 — the polling (N)RPN scanner decodes every documented sequence form,
//! C13 — honours its timeout, C14 — never fabricates, duplicates or loses data entries.

use super::pn::{pn_alphabet, random_pn_event, KINDS};
use crate::explore::{cycles_upto2, explore, pump, starts_from, Sys};
use crate::poll::*;
use crate::report::Report;
use crate::scan::*;
use crate::util::{par, Cfg, Rng};
use serde_json::json;

pub const TICK: u64 = 1000;
pub const T2: u64 = 2 * TICK;

// =====================================================================================
// C14: explorer over (scanner x observer) + hostile random histories
// =====================================================================================

fn explore_poll(cfg: &Cfg, rep: &mut Report, chans: &[u8], values: &[u8], timeout: u64, max_states: usize, tag: &str) {
    let alpha = pn_alphabet(chans, values, true, Some(TICK));
    let mut init = PollMon::new(timeout);
    init.p5 = true;
    let (st, _) = explore(cfg, init, &alpha, max_states, rep, false);
    rep.states += st.states;
    rep.transitions += st.transitions;
    rep.evaluations += st.transitions;
    rep.distinct_nontrivial += st.states;
    rep.max("max_explorer_depth", st.depth);
    if !st.fixpoint && !tag.starts_with("auto") {
        rep.inconclusive(format!("{} explorer (channels {:?}, timeout {}) did not reach a fixpoint within {} states", tag, chans, timeout, max_states));
    }
    let tname = if timeout == T_INF { "inf".to_string() } else { format!("{}ns", timeout) };
    rep.count("explorer_runs", 1);
    if rep.notes.len() > 14 {
        return;
    }
    rep.notes.insert(
        format!("explorer_{}_ch{:?}_values{:?}_t{}", tag, chans, values, tname),
        json!({"states":st.states,"transitions":st.transitions,"depth":st.depth,"fixpoint_reached":st.fixpoint,"alphabet":alpha.len(),"tick_ns":TICK}),
    );
}

/// repetition workload for the polling scanner (counters, streak heuristics, generations)
pub fn pump_polling(cfg: &Cfg, rep: &mut Report, timeout: u64, stream: usize) {
    let c = crate::util::rotating_channel(cfg, stream);
    let t = if timeout == T_INF { 3 * TICK } else { timeout.max(1) };
    let (x, y, l, m, m2, i) = (Ev::cc(c, 101, 3), Ev::cc(c, 100, 4), Ev::cc(c, 38, 9), Ev::cc(c, 6, 5), Ev::cc(c, 6, 6), Ev::cc(c, 97, 2));
    let (p, tk, tk1) = (Ev::Poll(c), Ev::Tick(t), Ev::Tick(1));
    let syms = [x, y, l, m, m2, i, p, tk, tk1, Ev::cc(c, 7, 1), Ev::Reset];
    let mut fresh = PollMon::new(timeout);
    fresh.p5 = false;
    let starts = starts_from(&fresh, &[vec![], vec![x, y], vec![x, y, m], vec![x, y, l], vec![x, y, m, l]], rep);
    let tail = [x, l, m, i, p, tk];
    let units: Vec<Vec<Ev>> = vec![
        vec![m, tk, p],
        vec![m2, tk, p],
        vec![m, tk1, p],
        vec![x, y, m],
        vec![m, l],
        vec![l, m],
        vec![x, y, l, m],
        vec![m, tk, p, m2, tk, p],
        vec![m, i],
        vec![l, tk, p],
        vec![m, Ev::Tick(hostile_ticks(t / 2)[0]), p],
        vec![m, Ev::Tick(hostile_ticks(t / 2)[1]), p],
        vec![m, Ev::Tick(hostile_ticks(t / 2)[2]), p],
        vec![m, Ev::Tick(hostile_ticks(t / 2)[3]), p],
        vec![m, Ev::Tick(hostile_ticks(t / 2)[4]), p],
    ];
    if cfg.thorough && cfg.release && !cfg.as_c18 {
        pump(cfg, rep, &starts, &cycles_upto2(&syms, &units), 2_000, &tail, true);
        pump(cfg, rep, &starts, &units, 66_000, &tail, false);
    } else {
        pump(cfg, rep, &starts, &cycles_upto2(&syms, &units), cfg.size(20, 300, 600) as usize, &tail, true);
        if !cfg.as_c18 {
            pump(cfg, rep, &starts[..3], &units[..4], 66_000, &tail, false);
        }
    }
}

pub fn random_poll_histories(cfg: &Cfg, rep: &mut Report, total: u64, stream: u64, timing_focus: bool) {
    par(cfg, rep, |shard, nsh, rep| {
        let mut rng = Rng::derive(cfg.seed, stream + shard as u64);
        let per = total / nsh as u64;
        let mut done = 0u64;
        let mut hist_count = 0u64;
        let mut with_report = 0u64;
        while done < per {
            let len = rng.range(5, 200);
            let timeout = *rng.pick(&[0u64, 1, T2, T2, 5 * TICK, T_INF, 10_000_000, 900_000_000, ONE_S, 1_500_000_000, ONE_H, T_YEAR, (1u64 << 53) + 1, T_150Y]);
            let t = if timeout == T_INF { 7 * TICK } else { timeout };
            let mut ticks: Vec<u64> = if timing_focus {
                vec![t.saturating_sub(1), t, t + 1, 1, t / 2, t.saturating_sub(1), t]
            } else {
                vec![1, t / 2, t.saturating_sub(1), t, t + 1, 3 * t + 5]
            };
            if rng.chance(1, 2) {
                // steps just past 2^32 ns, 1 s, 2^32 us, 1 h (offset below the timeout)
                let h = rng.below(t.max(1));
                ticks.extend_from_slice(&hostile_ticks(h));
                ticks.push(hostile_ticks(h)[rng.below(5) as usize] - h.min(1) - 1);
            }
            let nvalues = *rng.pick(&[2u8, 3, 4, 128, 200, 200]);
            let chans = *rng.pick(&[1u8, 1, 2, 3, 16]);
            let mut mon = if timeout == T_INF && rng.chance(1, 2) {
                PollMon::new_huge(*rng.pick(&huge_durations()))
            } else {
                PollMon::new(timeout)
            };
            mon.now = *rng.pick(&[0u64, 17, 1 << 40]);
            mon.p5 = rng.chance(1, 2);
            let mut hist: Vec<Ev> = Vec::with_capacity(len as usize + 1);
            if mon.now > 0 {
                hist.push(Ev::Tick(mon.now));
            }
            let mut reported = false;
            for _ in 0..len {
                let e = random_pn_event(&mut rng, chans, nvalues, true, &ticks);
                hist.push(e);
                let h = &hist;
                let o = mon.apply(&e, rep, &|| h.iter().map(|e| e.render()).collect());
                if o[0].is_some() {
                    reported = true;
                }
            }
            done += len;
            hist_count += 1;
            with_report += reported as u64;
            if shard == 0 && hist_count == 2 {
                rep.sample(json!({"random_history": hist.iter().take(16).map(|e| e.render()).collect::<Vec<_>>(), "length": len, "timeout_ns": if timeout == T_INF { json!("inf") } else { json!(timeout) }}));
            }
        }
        rep.evaluations += done;
        rep.distinct_nontrivial += with_report;
        rep.count("random_histories", hist_count);
        rep.count("random_histories_with_report", with_report);
    });
}

fn require_observed(rep: &mut Report, keys: &[&str]) {
    for k in keys {
        if rep.counters.get(*k).copied().unwrap_or(0) == 0 {
            rep.inconclusive(format!("characteristic event never observed: {}", k));
        }
    }
}



/// auto-dictionary: bounded exploration with abstract values taken from integer literals that
/// are new in the tree under test (nothing on the unchanged tree)
fn explore_poll_auto_dictionary(cfg: &Cfg, rep: &mut Report) {
    let extra = crate::util::extra_values7();
    if extra.is_empty() || cfg.as_c18 {
        return;
    }
    for c in crate::util::extra_channels() {
        for t in [T2, 0] {
            explore_poll(cfg, rep, &[c], &extra, t, 150_000, "auto-dictionary");
        }
    }
    rep.count("auto_dictionary_explorer_runs", 2 * crate::util::extra_channels().len() as u64);
}

/// All 16 channels pending at once (in several channel orders), served in another order, twice;
/// every step judged by the timeout monitor and the history observer. Scanner-level summaries
/// of per-channel state (counts, masks) saturate or wrap exactly here.
pub fn all_channels_pending(cfg: &Cfg, rep: &mut Report) {
    let mut rng = Rng::derive(cfg.seed, 0xA11_16);
    let asc: Vec<u8> = (0..16).collect();
    let mut orders: Vec<Vec<u8>> = vec![asc.clone(), (0..16).rev().collect()];
    for _ in 0..cfg.size(1, 3, 16) {
        let mut o = asc.clone();
        for i in (1..16).rev() {
            let j = rng.below(i as u64 + 1) as usize;
            o.swap(i, j);
        }
        orders.push(o);
    }
    let mut scenarios = 0u64;
    for &timeout in &[T2, 0, T_INF, ONE_S + 1] {
        let step = if timeout == T_INF || timeout == 0 { TICK } else { timeout };
        for o1 in &orders {
            for o2 in &orders {
                for variant in 0..3u8 {
                    let mut mon = PollMon::new(timeout);
                    let mut hist: Vec<Ev> = Vec::new();
                    macro_rules! ap {
                        ($e:expr) => {{
                            let e: Ev = $e;
                            hist.push(e);
                            let h = &hist;
                            mon.apply(&e, rep, &|| h.iter().map(|e| e.render()).collect())
                        }};
                    }
                    for &c in o1 {
                        ap!(Ev::cc(c, 101, c));
                        ap!(Ev::cc(c, 100, 15 - c));
                        if variant == 2 {
                            ap!(Ev::cc(c, 38, c + 1));
                        }
                        ap!(Ev::cc(c, 6, 100 + c));
                        ap!(Ev::Tick(1));
                    }
                    if variant != 1 {
                        ap!(Ev::Tick(step));
                    }
                    let mut reports = 0u32;
                    for &c in o2 {
                        if ap!(Ev::Poll(c))[0].is_some() {
                            reports += 1;
                        }
                        if variant == 1 {
                            ap!(Ev::cc(c, 38, c));
                        }
                    }
                    if variant == 0 && timeout != T_INF && reports != 16 {
                        let h = &hist;
                        crate::viol!(
                            rep,
                            "C13:all-channels-pending:late-polls-report-every-channel",
                            format!("16 channels had a lone MSB pending past the timeout; polling all of them reported only {} messages", reports),
                            history_json("polling", Some(timeout), &|| h.iter().map(|e| e.render()).collect(), json!(16), json!(reports))
                        );
                    }
                    for &c in o1 {
                        ap!(Ev::cc(c, 6, 50 + c));
                    }
                    ap!(Ev::Tick(step.saturating_mul(3)));
                    for &c in o2 {
                        ap!(Ev::Poll(c));
                        ap!(Ev::Poll(c));
                    }
                    let last = *o2.last().unwrap();
                    ap!(Ev::cc(last, 6, 7));
                    ap!(Ev::Tick(step));
                    ap!(Ev::Poll(last));
                    scenarios += 1;
                    rep.evaluations += hist.len() as u64;
                }
            }
            if rep.own_violations(&cfg.prop) >= 20 {
                break;
            }
        }
    }
    rep.count("all_16_channels_pending_scenarios", scenarios);
    rep.rule("all 16 channels pending at once in ascending, descending and seeded channel orders, polled in another order, twice (timeouts 2 ticks, 0, MAX, 1 s + 1 ns)");
}

pub fn run_c14(cfg: &Cfg, rep: &mut Report) {
    rep.rule("fixpoint exploration of (real polling scanner x history observer) over number bytes {98,99,100,101}, controllers 6, 38, 96, 97 x abstract values, non-contributing representatives, poll, tick (1000 ns), reset; timeouts {0, 2 ticks, infinite}; one channel (quick: 2 values, thorough: 3) and a two-channel product; plus seeded random histories over the full alphabet incl. malformed and mixed registered/non-registered traffic on 1-16 channels with polls and time steps; distinct_nontrivial = explorer states + random histories with at least one report ; explorer runs rotate their abstract values and channels (fixed pair {0,1}, seeded pairs, spec-dictionary pairs such as {0,6}, {0,3}; thorough/release: every 7-bit value) ; repetition (pumping) workloads repeat every cycle of one or two symbols and every documented unit form 300x (unit forms and single symbols 66 000x) from several start states, applying all tail symbols to a copy after each iteration ; a third of the random histories draws number bytes, values and channels from the spec dictionary ; polls right after clock steps just past 2^32 ns, 1 s, 2^32 us and 1 h (compound explorer symbols, templates, repetition cycles, random histories); timeouts from 0/1 ns to one year and durations of 2^64 ns and more (oracle: never); every feed also as StructuredShortMessage and as a foreign implementor on copies of the prior state (results and states must agree); the time-shifted feed twin (P5) also compares a very late poll");
    let v2 = [0u8, 1];
    let v3 = [0u8, 1, 127];
    if cfg.as_c18 {
        explore_poll(cfg, rep, &[4], &v2[..1], T2, 200_000, "c14");
    } else {
        for &t in &[0u64, T2, T_INF] {
            explore_poll(cfg, rep, &[0], &v2, t, 80_000, "c14");
        }
        explore_poll(cfg, rep, &[15], &v2, T2, 80_000, "c14");
        if cfg.thorough {
            if cfg.release {
                for &t in &[0u64, T2, T_INF] {
                    explore_poll(cfg, rep, &[9], &v3, t, 4_000_000, "c14");
                }
                explore_poll(cfg, rep, &[2, 13], &v2[..1], T2, 6_000_000, "c14-two-channel");
            } else {
                explore_poll(cfg, rep, &[2, 13], &v2[..1], T2, 300_000, "c14-two-channel");
            }
        } else {
            explore_poll(cfg, rep, &[2, 13], &v2[..1], 0, 300_000, "c14-two-channel");
        }
    }
    if !cfg.as_c18 {
        // rotating abstract values / channels
        for (i, p) in crate::util::value_pairs(cfg, 0xC14, 2).iter().enumerate().skip(1) {
            let c = crate::util::rotating_channel(cfg, i);
            let ts: &[u64] = if cfg.thorough && cfg.release { &[0, T2, T_INF] } else { &[T2] };
            for &t in ts {
                explore_poll(cfg, rep, &[c], &p[..], t, 80_000, "c14-rotating");
            }
        }
    }
    if !cfg.as_c18 {
        for (i, p) in crate::util::dict_pairs(cfg, 3, 1).iter().enumerate() {
            explore_poll(cfg, rep, &[[0u8, 15, 9, 5][i % 4]], &p[..], T2, 80_000, "c14-dictionary");
        }
    }
    pump_polling(cfg, rep, T2, 1);
    if !cfg.as_c18 {
        pump_polling(cfg, rep, 0, 2);
    }
    let total = cfg.size(3_000, 10_000_000, 200_000_000);
    random_poll_histories(cfg, rep, total, 0xC14_00, false);
    all_channels_pending(cfg, rep);
    explore_poll_auto_dictionary(cfg, rep);
    rep.set_exhaustive(false);
    rep.sample(json!({"history":["B0 63 00","B0 62 01","B0 06 01","B0 60 00"],"timeout_ns":2000,"expected":"second-to-last: nothing; last feed returns [7-bit data entry 1, increment 0]"}));
    if !cfg.as_c18 {
        require_observed(rep, &["poll_reports_14bit", "poll_reports_7bit_by_feed", "poll_reports_7bit_by_poll", "poll_reports_incdec", "poll_double_reports", "poll_early_polls", "poll_resets"]);
    }
}

// =====================================================================================
// C13: timeout behaviour — explorer with templates at every state, timing-focused random
// histories, metamorphic epoch-shift / time-scale runs
// =====================================================================================

#[derive(Clone)]
struct PollTemplates {
    mon: PollMon,
    chan: u8,
}

fn expect_outs(what: &str, got: Outs, want: Outs, mon: &PollMon, rep: &mut Report, path: &dyn Fn() -> Vec<String>) {
    if got != want {
        crate::viol!(rep, 
            format!("C13:template:{}", what),
            format!("{}: got {:?}, expected {:?}", what, got, want),
            history_json("polling", Some(mon.timeout), path, json!(format!("{:?}", want)), json!(format!("{:?}", got))),
        );
    }
}

/// P6 templates from an arbitrary prior state (on channel c)
pub fn run_templates(base: &PollMon, c: u8, prefix: &[String], rep: &mut Report) {
    let t = base.timeout;
    let sel = [Ev::cc(c, 99, 5), Ev::cc(c, 98, 6)];
    let l = Ev::cc(c, 38, 33);
    let m = Ev::cc(c, 6, 44);
    let seven = PnM { ch: c, number: 5 * 128 + 6, value: 44, registered: false, is14: false, dt: 0 };
    let fourteen = PnM { ch: c, number: 5 * 128 + 6, value: 44 * 128 + 33, registered: false, is14: true, dt: 0 };
    let run = |evs: &[(Ev, Option<Outs>, &str)], rep: &mut Report| {
        // the mock clock is a u64 of nanoseconds: a template whose clock steps would leave that
        // range from this prior state cannot be played (its expectations assume time advances)
        let total = evs.iter().try_fold(base.now, |acc, (e, _, _)| match e {
            Ev::Tick(n) | Ev::TickPoll(n, _) => acc.checked_add(*n),
            _ => Some(acc),
        });
        if total.is_none() {
            rep.count("templates_skipped_at_the_end_of_the_mock_clock_range", 1);
            return;
        }
        let mut mon = base.clone();
        let mut hist: Vec<Ev> = Vec::new();
        for (e, want, what) in evs {
            hist.push(*e);
            let h = &hist;
            let pf = || prefix.iter().cloned().chain(h.iter().map(|e| e.render())).collect::<Vec<_>>();
            let got = mon.apply(e, rep, &pf);
            if let Some(w) = want {
                expect_outs(what, got, *w, &mon, rep, &pf);
            }
        }
    };
    if t != T_INF {
        // unpaired LSB: never reported, dropped by the first poll after the timeout
        run(
            &[
                (sel[0], None, ""),
                (sel[1], Some([None, None]), "second number byte reports nothing"),
                (l, Some([None, None]), "unpaired LSB reports nothing"),
                (Ev::Tick(t), None, ""),
                (Ev::Poll(c), Some([None, None]), "late poll with unpaired LSB reports nothing"),
                (m, Some([None, None]), "MSB after dropped LSB is not completed to 14-bit"),
                (Ev::Tick(t), None, ""),
                (Ev::Poll(c), Some([Some(seven), None]), "late poll reports the lone MSB as 7-bit"),
                (Ev::Poll(c), Some([None, None]), "second poll reports nothing"),
                (Ev::Tick(t.saturating_mul(3) + 1), None, ""),
                (Ev::Poll(c), Some([None, None]), "later poll reports nothing until new input"),
            ],
            rep,
        );
        rep.count("templates_late", 1);
        // the same late poll after clock steps just past 2^32 ns, 1 s, 2^32 us, 1 h
        for hstep in hostile_ticks(t / 2) {
            if hstep < t {
                continue; // with a very long timeout this step is not past the deadline
            }
            run(
                &[
                    (sel[0], None, ""),
                    (sel[1], Some([None, None]), "second number byte reports nothing"),
                    (m, Some([None, None]), "lone MSB reports nothing at first"),
                    (Ev::Tick(hstep), None, ""),
                    (Ev::Poll(c), Some([Some(seven), None]), "poll long after the deadline (clock step past a representation boundary) reports the MSB"),
                ],
                rep,
            );
            run(
                &[
                    (sel[0], None, ""),
                    (sel[1], None, ""),
                    (l, Some([None, None]), "unpaired LSB reports nothing"),
                    (Ev::Tick(hstep), None, ""),
                    (Ev::Poll(c), Some([None, None]), "late poll with unpaired LSB reports nothing"),
                    (m, Some([None, None]), "MSB after an LSB dropped long after its deadline is not completed to 14-bit"),
                ],
                rep,
            );
        }
        rep.count("templates_hostile_clock_steps", 1);
    }
    if t > 0 {
        let early = if t == T_INF { 1u64 << 50 } else { t - 1 };
        // a poll before the timeout has no effect: the LSB is still there and pairs with the MSB
        run(
            &[
                (sel[1], None, ""),
                (sel[0], Some([None, None]), "second number byte reports nothing"),
                (l, Some([None, None]), "unpaired LSB reports nothing"),
                (Ev::Tick(early), None, ""),
                (Ev::Poll(c), Some([None, None]), "early poll reports nothing"),
                (m, Some([Some(fourteen), None]), "MSB after early poll completes the 14-bit value"),
            ],
            rep,
        );
        // pending MSB: early poll nothing, poll exactly at the deadline reports
        let mut evs: Vec<(Ev, Option<Outs>, &str)> = vec![
            (sel[0], None, ""),
            (sel[1], Some([None, None]), "second number byte reports nothing"),
            (m, Some([None, None]), "lone MSB reports nothing at first"),
            (Ev::Tick(early), None, ""),
            (Ev::Poll(c), Some([None, None]), "poll one tick before the deadline reports nothing"),
        ];
        if t != T_INF {
            evs.push((Ev::Tick(1), None, ""));
            evs.push((Ev::Poll(c), Some([Some(seven), None]), "poll exactly at the deadline reports the MSB"));
            evs.push((Ev::Poll(c), Some([None, None]), "poll after the report returns nothing"));
        }
        run(&evs, rep);
        rep.count("templates_early", 1);
    }
}

impl Sys for PollTemplates {
    type Sym = Ev;
    fn key(&self, buf: &mut Vec<u8>, scratch: &mut String) {
        self.mon.key_into(buf, scratch)
    }
    fn step(&mut self, sym: &Ev, rep: &mut Report, path: &dyn Fn() -> Vec<String>) {
        self.mon.apply(sym, rep, path);
    }
    fn render(sym: &Ev) -> String {
        sym.render()
    }
    fn visit(&self, rep: &mut Report, path: &dyn Fn() -> Vec<String>) {
        let prefix = path();
        run_templates(&self.mon, self.chan, &prefix, rep);
    }
}

fn metamorphic(cfg: &Cfg, rep: &mut Report, total: u64) {
    par(cfg, rep, |shard, nsh, rep| {
        let mut rng = Rng::derive(cfg.seed, 0xC13_50 + shard as u64);
        let per = total / nsh as u64;
        let mut done = 0;
        while done < per {
            let len = rng.range(5, 80) as usize;
            let timeout = *rng.pick(&[1u64, T2, 7 * TICK]);
            let ticks = [timeout - 1, timeout, timeout + 1, 1, timeout / 2];
            let hist: Vec<Ev> = (0..len).map(|_| random_pn_event(&mut rng, 2, 3, true, &ticks)).collect();
            let runit = |timeout: u64, epoch: u64, scale: u64, rep: &mut Report| -> Vec<Outs> {
                let mut mon = PollMon::new(timeout * scale);
                mon.now = epoch;
                mon.p5 = false;
                let mut outs = Vec::with_capacity(len);
                let mut sofar: Vec<Ev> = vec![Ev::Tick(epoch)];
                for e in &hist {
                    let e2 = match e {
                        Ev::Tick(n) => Ev::Tick(n * scale),
                        x => *x,
                    };
                    sofar.push(e2);
                    let h = &sofar;
                    outs.push(mon.apply(&e2, rep, &|| h.iter().map(|e| e.render()).collect()));
                }
                outs
            };
            let base = runit(timeout, 0, 1, rep);
            let shifted = runit(timeout, 1 << 45, 1, rep);
            let scaled = runit(timeout, 0, *rng.pick(&[1000u64, 750_000, 450_000_000]), rep);
            if base != shifted || base != scaled {
                let which = if base != shifted { "epoch-shift" } else { "time-scale" };
                crate::viol!(rep, 
                    format!("C13:metamorphic-{}", which),
                    format!("outputs differ under {} (timeout {} ns)", which, timeout),
                    history_json("polling", Some(timeout), &|| hist.iter().map(|e| e.render()).collect(), json!(format!("{:?}", base)), json!(format!("{:?} / {:?}", shifted, scaled))),
                );
            }
            done += len as u64 * 3;
            rep.count("metamorphic_triples", 1);
        }
        rep.evaluations += done;
    });
}

pub fn run_c13(cfg: &Cfg, rep: &mut Report) {
    rep.rule("explorer over feeds, polls and ticks (1 tick = 1000 ns) with timeouts {0, 2 ticks, infinite}, running the timeout templates (unpaired LSB dropped by the first late poll; early poll has no effect; poll exactly at / one ns before the deadline) from every reachable state; online checker P1-P5 on every poll and feed (P5: each feed repeated on a copy of the scanner with the clock advanced by T-1, T, T+1, 10T+7); seeded random histories with time steps T-1, T, T+1; metamorphic epoch-shift and time-scale runs; distinct_nontrivial = explorer states + random histories with a report ; explorer runs rotate their abstract values and channels (fixed pair {0,1}, seeded pairs, spec-dictionary pairs such as {0,6}, {0,3}; thorough/release: every 7-bit value) ; repetition (pumping) workloads repeat every cycle of one or two symbols and every documented unit form 300x (unit forms and single symbols 66 000x) from several start states, applying all tail symbols to a copy after each iteration ; a third of the random histories draws number bytes, values and channels from the spec dictionary ; polls right after clock steps just past 2^32 ns, 1 s, 2^32 us and 1 h (compound explorer symbols, templates, repetition cycles, random histories); timeouts from 0/1 ns to one year and durations of 2^64 ns and more (oracle: never); every feed also as StructuredShortMessage and as a foreign implementor on copies of the prior state (results and states must agree); the time-shifted feed twin (P5) also compares a very late poll ; a real-clock smoke run (hooks off) incl. busy-polling across 20 us / 300 us / 2 ms deadlines and huge timeouts");
    let v2 = [0u8, 1];
    let timeouts: Vec<u64> = if cfg.as_c18 { vec![T2] } else { vec![0, T2, T_INF] };
    for &t in &timeouts {
        let alpha = pn_alphabet(&[5], if cfg.as_c18 { &v2[..1] } else { &v2 }, true, Some(TICK));
        let init = PollTemplates { mon: PollMon::new(t), chan: 5 };
        let (st, _) = explore(cfg, init, &alpha, 80_000, rep, false);
        rep.states += st.states;
        rep.transitions += st.transitions;
        rep.evaluations += st.transitions;
        rep.distinct_nontrivial += st.states;
        rep.max("max_explorer_depth", st.depth);
        if !st.fixpoint {
            rep.inconclusive("C13 explorer did not reach a fixpoint");
        }
        let tname = if t == T_INF { "inf".to_string() } else { format!("{}ns", t) };
        rep.notes.insert(
            format!("explorer_c13_t{}", tname),
            json!({"states":st.states,"transitions":st.transitions,"depth":st.depth,"fixpoint_reached":st.fixpoint,"alphabet":alpha.len()}),
        );
    }
    if !cfg.as_c18 {
        for (i, p) in crate::util::value_pairs(cfg, 0xC13, 2).iter().enumerate().skip(1) {
            let c = crate::util::rotating_channel(cfg, i);
            let alpha = pn_alphabet(&[c], &p[..], true, Some(TICK));
            let init = PollTemplates { mon: PollMon::new(T2), chan: c };
            let (st, _) = explore(cfg, init, &alpha, 80_000, rep, false);
            rep.states += st.states;
            rep.transitions += st.transitions;
            rep.evaluations += st.transitions;
            rep.distinct_nontrivial += st.states;
            rep.count("rotating_explorer_runs", 1);
            if !st.fixpoint {
                rep.inconclusive("C13 rotating explorer did not reach a fixpoint");
            }
        }
    }
    if !cfg.as_c18 {
        for (i, p) in crate::util::dict_pairs(cfg, 3, 1).iter().enumerate() {
            let c = [0u8, 15, 9, 5][i % 4];
            let alpha = pn_alphabet(&[c], &p[..], true, Some(TICK));
            let init = PollTemplates { mon: PollMon::new(T2), chan: c };
            let (st, _) = explore(cfg, init, &alpha, 80_000, rep, false);
            rep.states += st.states;
            rep.transitions += st.transitions;
            rep.evaluations += st.transitions;
            rep.distinct_nontrivial += st.states;
            rep.count("dictionary_explorer_runs", 1);
            if !st.fixpoint {
                rep.inconclusive("C13 dictionary explorer did not reach a fixpoint");
            }
        }
    }
    if !cfg.as_c18 {
        // very long timeouts: one year (beyond exact f64 seconds; tick = half a year) and
        // durations of 2^64 ns and more (must behave as "never")
        let c = crate::util::rotating_channel(cfg, 9);
        let mut setups: Vec<(PollMon, u64)> = vec![(PollMon::new(T_YEAR), T_YEAR / 2), (PollMon::new(T_150Y), T_150Y / 2)];
        for d in huge_durations().iter().take(if cfg.thorough { 5 } else { 2 }) {
            setups.push((PollMon::new_huge(*d), TICK));
        }
        for (mon, tick) in setups {
            let alpha = pn_alphabet(&[c], &[0, 1], true, Some(tick));
            let init = PollTemplates { mon, chan: c };
            let (st, _) = explore(cfg, init, &alpha, 80_000, rep, false);
            rep.states += st.states;
            rep.transitions += st.transitions;
            rep.evaluations += st.transitions;
            rep.distinct_nontrivial += st.states;
            rep.count("long_timeout_explorer_runs", 1);
            if !st.fixpoint {
                rep.inconclusive("C13 long-timeout explorer did not reach a fixpoint");
            }
        }
    }
    if cfg.thorough && cfg.release && !cfg.as_c18 {
        // a second timeout so that ages 0,1,2,3 ticks are distinguishable; 3 values
        let alpha = pn_alphabet(&[11], &[0, 1, 127], true, Some(TICK));
        let init = PollTemplates { mon: PollMon::new(3 * TICK), chan: 11 };
        let (st, _) = explore(cfg, init, &alpha, 6_000_000, rep, false);
        rep.states += st.states;
        rep.transitions += st.transitions;
        rep.evaluations += st.transitions;
        rep.distinct_nontrivial += st.states;
        rep.notes.insert("explorer_c13_t3000ns_v3".into(), json!({"states":st.states,"transitions":st.transitions,"depth":st.depth,"fixpoint_reached":st.fixpoint}));
        if !st.fixpoint {
            rep.inconclusive("C13 explorer (timeout 3 ticks) did not reach a fixpoint");
        }
    }
    pump_polling(cfg, rep, T2, 5);
    if !cfg.as_c18 {
        pump_polling(cfg, rep, T_INF, 6);
    }
    random_poll_histories(cfg, rep, cfg.size(3_000, 8_000_000, 150_000_000), 0xC13_00, true);
    all_channels_pending(cfg, rep);
    explore_poll_auto_dictionary(cfg, rep);
    metamorphic(cfg, rep, cfg.size(1_000, 2_000_000, 40_000_000));
    rep.set_exhaustive(false);
    rep.sample(json!({"template":["x","y","B5 26 21","tick T","poll 5 -> None","B5 06 2C -> nothing","tick T","poll 5 -> 7-bit 44"],"meaning":"unpaired LSB dropped by the first poll after the timeout"}));
    rep.sample(json!({"template":["x","y","B5 06 2C","tick T-1","poll 5 -> None","tick 1","poll 5 -> 7-bit 44","poll 5 -> None"],"meaning":"poll reports exactly from the deadline on, once"}));
    if !cfg.as_c18 {
        require_observed(rep, &["poll_reports_7bit_by_poll", "poll_early_polls", "poll_late_polls_returning_nothing", "poll_p5_time_shifted_feeds", "templates_late", "templates_early", "metamorphic_triples"]);
    }
}

// =====================================================================================
// C12: sentence grammar + expected-output transducer
// =====================================================================================

#[derive(Copy, Clone, PartialEq, Eq, Debug)]
pub enum UnitKind {
    M,
    ML,
    LM,
    Lf,
    Inc,
    Dec,
}

#[derive(Copy, Clone, Debug)]
enum Tok {
    Sel1 { cn: u8, v: u8 },
    Sel2 { cn: u8, v: u8, number: u16, reg: bool },
    /// lone MSB or first byte of an ML pair
    M { v: u8, paired: bool },
    /// second byte of ML
    L2 { v: u8 },
    /// first byte of LM
    L1 { v: u8 },
    /// second byte of LM
    M2 { v: u8 },
    Lf { v: u8 },
    IncDec { inc: bool, v: u8 },
    /// marks a unit boundary (place for late polls)
    Boundary,
}

/// all unit-kind sequences of length <= maxlen that respect the grammar's adjacency rules
pub fn unit_sequences(maxlen: usize) -> Vec<Vec<UnitKind>> {
    use UnitKind::*;
    let mut out: Vec<Vec<UnitKind>> = vec![vec![]];
    let mut frontier: Vec<Vec<UnitKind>> = vec![vec![]];
    for _ in 0..maxlen {
        let mut next = vec![];
        for s in &frontier {
            for k in [M, ML, LM, Lf, Inc, Dec] {
                let prev = s.last().copied();
                let ok = match k {
                    // a further LSB only directly after a 14-bit value
                    Lf => matches!(prev, Some(ML) | Some(LM) | Some(Lf)),
                    // LSB, MSB only directly after the number selection
                    LM => prev.is_none(),
                    _ => true,
                };
                if ok {
                    let mut t = s.clone();
                    t.push(k);
                    next.push(t);
                }
            }
        }
        out.extend(next.iter().cloned());
        frontier = next;
    }
    out
}

struct Sentence {
    c: u8,
    toks: Vec<Tok>,
    units: usize,
}

fn build_sentence(c: u8, sels: &[(bool, u16, bool, Vec<UnitKind>)], idgen: &mut u8) -> Sentence {
    let mut toks = Vec::new();
    let mut units = 0;
    let mut fresh = |g: &mut u8| -> u8 {
        *g = if *g >= 126 { 1 } else { *g + 1 };
        *g
    };
    for (reg, number, lsb_first, us) in sels {
        let (mcn, lcn) = if *reg { (101u8, 100u8) } else { (99u8, 98u8) };
        let (mb, lb) = ((number >> 7) as u8, (number & 127) as u8);
        let (a, b) = if *lsb_first { ((lcn, lb), (mcn, mb)) } else { ((mcn, mb), (lcn, lb)) };
        toks.push(Tok::Sel1 { cn: a.0, v: a.1 });
        toks.push(Tok::Sel2 { cn: b.0, v: b.1, number: *number, reg: *reg });
        toks.push(Tok::Boundary);
        for k in us {
            units += 1;
            match k {
                UnitKind::M => toks.push(Tok::M { v: fresh(idgen), paired: false }),
                UnitKind::ML => {
                    toks.push(Tok::M { v: fresh(idgen), paired: true });
                    toks.push(Tok::L2 { v: fresh(idgen) });
                }
                UnitKind::LM => {
                    toks.push(Tok::L1 { v: fresh(idgen) });
                    toks.push(Tok::M2 { v: fresh(idgen) });
                }
                UnitKind::Lf => toks.push(Tok::Lf { v: fresh(idgen) }),
                UnitKind::Inc => toks.push(Tok::IncDec { inc: true, v: fresh(idgen) }),
                UnitKind::Dec => toks.push(Tok::IncDec { inc: false, v: fresh(idgen) }),
            }
            toks.push(Tok::Boundary);
        }
    }
    Sentence { c, toks, units }
}

/// per-channel transducer state while a sentence is being played
struct Play {
    s: Sentence,
    pos: usize,
    number: u16,
    reg: bool,
    pending_m: Option<(u8, u64)>,
    retained: u8,
    held_l: u8,
    /// time the first byte of an open pair was fed (no late poll may be placed inside)
    pair_open: Option<u64>,
    started: bool,
    reports_expected: u64,
}

impl Play {
    fn seven(&self, v: u8) -> PnM {
        PnM { ch: self.s.c, number: self.number, value: v as u16, registered: self.reg, is14: false, dt: 0 }
    }
    fn fourteen(&self, m: u8, l: u8) -> PnM {
        PnM { ch: self.s.c, number: self.number, value: m as u16 * 128 + l as u16, registered: self.reg, is14: true, dt: 0 }
    }
    fn done(&self) -> bool {
        self.pos >= self.s.toks.len()
    }
}

#[derive(Copy, Clone, PartialEq, Eq, Debug)]
pub enum Deco {
    /// before every message: advance the clock to exactly one nanosecond before the deadline of
    /// whatever is pending on the channel and poll (must report nothing and change nothing)
    DeadlineMinusOne,
    None,
    LatePollAtBoundaries,
    EarlyPollsAndSmallTicks,
    BigStepsAndNoise,
    Random,
}

/// Plays sentences (one per channel) against the monitor, interleaving channels at random and
/// inserting decorations; compares every feed/poll result with the transducer's expectation.
fn play(
    mon: &mut PollMon,
    mut plays: Vec<Play>,
    deco: Deco,
    tolerate_first_flush: bool,
    prefix: &[String],
    rng: &mut Rng,
    rep: &mut Report,
) {
    let t = mon.timeout;
    let mut hist: Vec<Ev> = Vec::new();
    let late_step = |t: u64, now: u64, rng: &mut Rng| -> u64 {
        if t == 0 {
            *rng.pick(&[0u64, 1, 500])
        } else {
            // hostile steps count as "late" only when they are at least the timeout; the mock
            // clock is a u64 of nanoseconds, so steps that would leave its range are not taken
            let hs = hostile_ticks(t / 2).map(|h| h.max(t));
            let cands = [t, t + 1, t.saturating_mul(3), t, t + 1, hs[0], hs[1], hs[2], hs[3], hs[4], hs[5]];
            let fit: Vec<u64> = cands.iter().copied().filter(|s| now.checked_add(*s).is_some()).collect();
            if fit.is_empty() { t } else { *rng.pick(&fit) }
        }
    };
    macro_rules! apply {
        ($e:expr) => {{
            let e: Ev = $e;
            hist.push(e);
            let h = &hist;
            mon.apply(&e, rep, &|| prefix.iter().cloned().chain(h.iter().map(|e| e.render())).collect())
        }};
    }
    macro_rules! mismatch {
        ($what:expr, $got:expr, $want:expr) => {{
            let h = &hist;
            crate::viol!(rep, 
                format!("C12:{}", $what),
                format!("{}: got {:?}, intended {:?}", $what, $got, $want),
                history_json("polling", Some(t), &|| prefix.iter().cloned().chain(h.iter().map(|e| e.render())).collect(), json!(format!("{:?}", $want)), json!(format!("{:?}", $got))),
            );
        }};
    }
    loop {
        let live: Vec<usize> = (0..plays.len()).filter(|i| !plays[*i].done()).collect();
        if live.is_empty() {
            break;
        }
        if t != T_INF && mon.now.checked_add(t.saturating_add(TICK)).is_none() {
            // the mock clock cannot move past another deadline: the sentence ends here
            rep.count("c12_plays_cut_at_the_end_of_the_mock_clock_range", 1);
            break;
        }
        let pi = live[rng.below(live.len() as u64) as usize];
        let c = plays[pi].s.c;
        let tok = plays[pi].s.toks[plays[pi].pos];
        // ---------------- decorations before the token
        let in_pair = plays[pi].pair_open.is_some();
        let wants = match deco {
            Deco::DeadlineMinusOne => 0,
            Deco::None => 0,
            Deco::LatePollAtBoundaries => 0,
            Deco::EarlyPollsAndSmallTicks => 2,
            Deco::BigStepsAndNoise => 2,
            Deco::Random => rng.below(3),
        };
        if plays[pi].started {
            for _ in 0..wants {
                match (deco, rng.below(5)) {
                    (Deco::EarlyPollsAndSmallTicks, 0..=1) | (Deco::Random, 0) => {
                        // small tick
                        let n = if t > 1 && t != T_INF { rng.range(0, (t - 1) / 2) } else { 0 };
                        apply!(Ev::Tick(n));
                    }
                    (Deco::EarlyPollsAndSmallTicks, _) | (Deco::Random, 1) => {
                        // a poll that is early for everything pending on this channel
                        let p = &plays[pi];
                        let first_t = p.pair_open.or(p.pending_m.map(|x| x.1));
                        let early_ok = match first_t {
                            Some(ft) => t == T_INF || mon.now - ft < t,
                            None => true,
                        };
                        if early_ok {
                            let got = apply!(Ev::Poll(c));
                            rep.count("c12_early_polls", 1);
                            if got != [None, None] {
                                mismatch!("early-poll-reports", got, "nothing");
                            }
                        }
                    }
                    (Deco::BigStepsAndNoise, 0..=1) | (Deco::Random, 2) => {
                        // big clock step (>= timeout) without a poll, also inside pairs
                        let n = late_step(if t == T_INF { 5 * TICK } else { t }, mon.now, rng);
                        apply!(Ev::Tick(n));
                        if in_pair {
                            rep.count("c12_big_steps_inside_pairs", 1);
                        }
                    }
                    (Deco::BigStepsAndNoise, _) | (Deco::Random, _) => {
                        // non-contributing message on this channel or traffic on an unused channel
                        let e = match rng.below(4) {
                            0 => Ev::cc(c, 7, 99),
                            1 => Ev::Msg(0x90 | c, 6, 38),
                            2 => Ev::Msg(0xF8, 0, 0),
                            _ => Ev::cc(c, 102, 6),
                        };
                        let got = apply!(e);
                        if got != [None, None] {
                            mismatch!("noise-reports", got, "nothing");
                        }
                    }
                    _ => {}
                }
            }
        }
        if deco == Deco::DeadlineMinusOne && plays[pi].started && t != T_INF && t > 1 {
            let first_t = plays[pi].pair_open.or(plays[pi].pending_m.map(|x| x.1));
            if let Some(ft) = first_t {
                let age = mon.now - ft;
                if age < t - 1 {
                    apply!(Ev::Tick(t - 1 - age));
                    let got = apply!(Ev::Poll(c));
                    rep.count("c12_polls_one_ns_before_the_deadline", 1);
                    if got != [None, None] {
                        mismatch!("poll-one-ns-before-deadline-reports", got, "nothing");
                    }
                }
            }
        }
        // ---------------- the token itself
        let p = &mut plays[pi];
        p.pos += 1;
        match tok {
            Tok::Boundary => {
                let do_late = match deco {
                    Deco::LatePollAtBoundaries => true,
                    Deco::Random => rng.chance(1, 3),
                    _ => false,
                } || p.done();
                if do_late && t != T_INF {
                    // advance so that anything pending on this channel is past its deadline, then poll
                    let step = late_step(t, mon.now, rng);
                    apply!(Ev::Tick(step));
                    let p = &mut plays[pi];
                    let want: Outs = match p.pending_m {
                        Some((v, at)) if mon.now - at >= t => {
                            p.reports_expected += 1;
                            let w = [Some(p.seven(v)), None];
                            p.pending_m = None;
                            w
                        }
                        _ => [None, None],
                    };
                    let got = apply!(Ev::Poll(c));
                    rep.count("c12_late_polls", 1);
                    if got != want {
                        mismatch!("late-poll", got, want);
                    }
                    // a second poll right away never reports again
                    if rng.chance(1, 4) {
                        let got = apply!(Ev::Poll(c));
                        if got != [None, None] {
                            mismatch!("second-poll-reports", got, "nothing");
                        }
                    }
                }
            }
            Tok::Sel1 { cn, v } => {
                let want: Outs = match p.pending_m.take() {
                    Some((pv, _)) => {
                        p.reports_expected += 1;
                        [Some(p.seven(pv)), None]
                    }
                    None => [None, None],
                };
                let first = !p.started;
                p.started = true;
                p.pair_open = None;
                let got = apply!(Ev::cc(c, cn, v));
                let tolerated = first && tolerate_first_flush && want == [None, None] && matches!(got, [Some(g), None] if !g.is14 && g.dt == 0 && g.ch == c);
                if tolerated {
                    rep.count("c12_prefix_flushes_tolerated", 1);
                } else if got != want {
                    mismatch!("selection-byte-1", got, want);
                }
            }
            Tok::Sel2 { cn, v, number, reg } => {
                p.number = number;
                p.reg = reg;
                let got = apply!(Ev::cc(c, cn, v));
                if got != [None, None] {
                    mismatch!("selection-byte-2", got, "nothing");
                }
            }
            Tok::M { v, paired } => {
                let want: Outs = match p.pending_m.take() {
                    Some((pv, _)) => {
                        p.reports_expected += 1;
                        [Some(p.seven(pv)), None]
                    }
                    None => [None, None],
                };
                let now = mon.now;
                p.pending_m = Some((v, now));
                p.pair_open = if paired { Some(now) } else { None };
                let got = apply!(Ev::cc(c, 6, v));
                if got != want {
                    mismatch!("MSB", got, want);
                }
            }
            Tok::L2 { v } => {
                let (m, _) = p.pending_m.take().expect("generator: L2 without M");
                p.pair_open = None;
                p.retained = m;
                p.reports_expected += 1;
                let want = [Some(p.fourteen(m, v)), None];
                let got = apply!(Ev::cc(c, 38, v));
                if got != want {
                    mismatch!("MSB-then-LSB", got, want);
                }
            }
            Tok::L1 { v } => {
                p.held_l = v;
                p.pair_open = Some(mon.now);
                let got = apply!(Ev::cc(c, 38, v));
                if got != [None, None] {
                    mismatch!("LSB-first-byte", got, "nothing");
                }
            }
            Tok::M2 { v } => {
                p.pair_open = None;
                p.retained = v;
                p.reports_expected += 1;
                let want = [Some(p.fourteen(v, p.held_l)), None];
                let got = apply!(Ev::cc(c, 6, v));
                if got != want {
                    mismatch!("LSB-then-MSB", got, want);
                }
            }
            Tok::Lf { v } => {
                p.reports_expected += 1;
                let want = [Some(p.fourteen(p.retained, v)), None];
                let got = apply!(Ev::cc(c, 38, v));
                if got != want {
                    mismatch!("further-LSB", got, want);
                }
            }
            Tok::IncDec { inc, v } => {
                let id = PnM { ch: c, number: p.number, value: v as u16, registered: p.reg, is14: false, dt: if inc { 1 } else { 2 } };
                let want: Outs = match p.pending_m.take() {
                    Some((pv, _)) => {
                        p.reports_expected += 2;
                        [Some(p.seven(pv)), Some(id)]
                    }
                    None => {
                        p.reports_expected += 1;
                        [Some(id), None]
                    }
                };
                p.pair_open = None;
                let got = apply!(Ev::cc(c, if inc { 96 } else { 97 }, v));
                if got != want {
                    mismatch!("increment-decrement", got, want);
                }
            }
        }
    }
    for p in &plays {
        rep.count("c12_units_played", p.s.units as u64);
        rep.count("c12_reports_expected", p.reports_expected);
    }
    rep.evaluations += hist.len() as u64;
}

fn new_play(s: Sentence) -> Play {
    Play {
        s,
        pos: 0,
        number: 0,
        reg: false,
        pending_m: None,
        retained: 0,
        held_l: 0,
        pair_open: None,
        started: false,
        reports_expected: 0,
    }
}

fn junk_prefix(mon: &mut PollMon, rng: &mut Rng, rep: &mut Report, maxlen: u64) -> Vec<String> {
    let len = rng.below(maxlen + 1);
    let t = if mon.timeout == T_INF { 5 * TICK } else { mon.timeout };
    let ticks = [1, t / 2, t.saturating_sub(1), t, t + 1];
    let mut hist: Vec<Ev> = Vec::new();
    for _ in 0..len {
        let e = random_pn_event(rng, 16, 3, true, &ticks);
        hist.push(e);
        let h = &hist;
        mon.apply(&e, rep, &|| h.iter().map(|e| e.render()).collect());
    }
    hist.iter().map(|e| e.render()).collect()
}

/// explorer system whose visitor plays the encoder corollary from every reachable state
#[derive(Clone)]
struct PollCorollary {
    mon: PollMon,
    chan: u8,
    seed: u64,
}

impl Sys for PollCorollary {
    type Sym = Ev;
    fn key(&self, buf: &mut Vec<u8>, scratch: &mut String) {
        self.mon.key_into(buf, scratch)
    }
    fn step(&mut self, sym: &Ev, rep: &mut Report, path: &dyn Fn() -> Vec<String>) {
        self.mon.apply(sym, rep, path);
    }
    fn render(sym: &Ev) -> String {
        sym.render()
    }
    fn visit(&self, rep: &mut Report, path: &dyn Fn() -> Vec<String>) {
        // encoding of every message kind in both byte orders, then a late poll
        let prefix = path();
        let mut rng = Rng::derive(self.seed, prefix.len() as u64);
        let mut id = 40u8;
        for (reg, kind, _) in KINDS.iter().copied() {
            for lsb_first_value in [false, true] {
                let units: Vec<UnitKind> = match (kind, lsb_first_value) {
                    (0, _) => vec![UnitKind::M],
                    (1, false) => vec![UnitKind::ML],
                    (1, true) => vec![UnitKind::LM],
                    (2, _) => vec![UnitKind::Inc],
                    _ => vec![UnitKind::Dec],
                };
                let number = *rng.pick(&[0u16, 129, 16383]);
                let s = build_sentence(self.chan, &[(reg, number, false, units)], &mut id);
                let mut mon = self.mon.clone();
                play(&mut mon, vec![new_play(s)], Deco::None, true, &prefix, &mut rng, rep);
                rep.count("c12_corollary_cases", 1);
            }
        }
    }
}

pub fn run_c12(cfg: &Cfg, rep: &mut Report) {
    rep.rule("sentences of the documented grammar S ::= (Sel U*)*, U ::= M | M L | L+ (after a 14-bit value) | L M (directly after Sel) | Inc | Dec: all unit sequences up to 3 units (thorough: 4-5) after each of up to 2 number selections (either byte order, registered and non-registered), x decoration patterns {none, late poll at every unit boundary, early polls + small ticks, big clock steps inside pairs + non-contributing messages, random mix} x timeouts {0, 2000 ns} x seeded junk prefixes; seeded random long sentences on up to 16 interleaved channels; encoder corollary (every message kind x both byte orders, then late poll) from every explorer-reachable prior state; every feed/poll result is compared with the transducer's intended output; distinct_nontrivial = distinct (unit sequence, decoration, timeout) sentences with at least one intended report + explorer states ; long repetitions (40x, thorough 300x) of every unit pattern under every decoration ; corollary explorers rotate abstract values/channels and include spec-dictionary pairs ; timeouts one year and 1.5 s with polls exactly one nanosecond before the deadline; late polls after clock steps past 2^32 ns / 1 s / 2^32 us / 1 h");
    let max_units = cfg.size(2, 3, if cfg.release { 5 } else { 4 }) as usize;
    let seqs = unit_sequences(max_units);
    let seqs2 = unit_sequences(cfg.size(1, 2, 3) as usize);
    rep.count("c12_unit_sequences", seqs.len() as u64);
    let decos = [Deco::None, Deco::LatePollAtBoundaries, Deco::EarlyPollsAndSmallTicks, Deco::BigStepsAndNoise, Deco::Random, Deco::DeadlineMinusOne];
    let seqs_ref = &seqs;
    let seqs2_ref = &seqs2;
    par(cfg, rep, |shard, nsh, rep| {
        let mut rng = Rng::derive(cfg.seed, 0xC12_00 + shard as u64);
        let mut id = 0u8;
        let mut sentences = 0u64;
        let mut case_i = 0usize;
        for timeout in [0u64, T2, T_YEAR, ONE_S + 500_000_000, T_150Y] {
            for (i, us) in seqs_ref.iter().enumerate() {
                for (j, us2) in seqs2_ref.iter().enumerate() {
                    // one selection (j == 0 with empty second part) or two selections
                    case_i += 1;
                    if case_i % nsh != shard {
                        continue;
                    }
                    for deco in decos {
                        if timeout > T2 && deco != Deco::DeadlineMinusOne && deco != Deco::LatePollAtBoundaries {
                            continue; // the long timeouts are played with the deadline-focused decorations only
                        }
                        let reg = (i + j) % 2 == 0;
                        let n1 = [0u16, 421, 16383, 128][(i + j) % 4];
                        let mut sels = vec![(reg, n1, i % 3 == 0, us.clone())];
                        if j > 0 || !us2.is_empty() {
                            sels.push((j % 2 == 0, [420u16, 127, 8192][j % 3], j % 2 == 1, us2.clone()));
                        }
                        let c = ((i * 7 + j) % 16) as u8;
                        let s = build_sentence(c, &sels, &mut id);
                        if s.units == 0 {
                            continue;
                        }
                        let mut mon = PollMon::new(timeout);
                        mon.p5 = false;
                        let prefix = if deco == Deco::Random || (i + j) % 3 == 0 {
                            junk_prefix(&mut mon, &mut rng, rep, 12)
                        } else {
                            vec![]
                        };
                        play(&mut mon, vec![new_play(s)], deco, true, &prefix, &mut rng, rep);
                        sentences += 1;
                    }
                }
            }
        }
        // long repetitions of one form after a single selection (streak / counter heuristics)
        if shard == 0 || nsh == 1 {
            use UnitKind::*;
            let reps = cfg.size(6, 40, 300) as usize;
            let patterns: Vec<Vec<UnitKind>> = vec![
                vec![M],
                vec![ML],
                vec![Inc],
                vec![Dec],
                vec![ML, Lf],
                vec![M, Inc],
                vec![ML, M],
                vec![M, ML],
                vec![ML, Lf, Lf, M],
            ];
            for timeout in [0u64, T2] {
                for pat in &patterns {
                    for deco in decos {
                        let mut us: Vec<UnitKind> = Vec::new();
                        for _ in 0..reps {
                            us.extend(pat.iter().copied());
                        }
                        // L+ may also follow the initial LSB-first pair
                        let mut with_lm = vec![LM];
                        with_lm.extend(us.iter().copied().filter(|k| *k != LM));
                        for (vi, units) in [us.clone(), with_lm].into_iter().enumerate() {
                            if vi == 1 && pat[0] != Lf && pat != &vec![ML, Lf] {
                                continue;
                            }
                            let s = build_sentence(((timeout as usize + us.len()) % 16) as u8, &[(true, 2 * 128 + 5, false, units)], &mut id);
                            let mut mon = PollMon::new(timeout);
                            mon.p5 = false;
                            play(&mut mon, vec![new_play(s)], deco, true, &[], &mut rng, rep);
                            sentences += 1;
                            rep.count("c12_long_repetition_sentences", 1);
                        }
                    }
                }
            }
        }
        rep.count("c12_enumerated_sentences", sentences);
        rep.distinct_nontrivial += sentences;
        // seeded random long sentences on up to 16 interleaved channels
        let n_random = cfg.size(20, 24_000, 600_000) / nsh as u64;
        for k in 0..n_random {
            let timeout = *rng.pick(&[0u64, 1, T2, 5 * TICK, T_INF]);
            let nch = *rng.pick(&[1usize, 2, 3, 16]);
            let mut mon = PollMon::new(timeout);
            mon.p5 = k % 4 == 0;
            let prefix = junk_prefix(&mut mon, &mut rng, rep, 20);
            let mut chans: Vec<u8> = (0..16).collect();
            for i in 0..16 {
                let j = rng.range(i as u64, 15) as usize;
                chans.swap(i, j);
            }
            let mut plays = Vec::new();
            for &c in chans.iter().take(nch) {
                let nsel = rng.range(1, 4) as usize;
                let mut sels = Vec::new();
                for _ in 0..nsel {
                    let len = rng.range(0, 8) as usize;
                    let mut us: Vec<UnitKind> = Vec::new();
                    for _ in 0..len {
                        let prev = us.last().copied();
                        loop {
                            let k = *rng.pick(&[UnitKind::M, UnitKind::ML, UnitKind::LM, UnitKind::Lf, UnitKind::Inc, UnitKind::Dec]);
                            let ok = match k {
                                UnitKind::Lf => matches!(prev, Some(UnitKind::ML) | Some(UnitKind::LM) | Some(UnitKind::Lf)),
                                UnitKind::LM => prev.is_none(),
                                _ => true,
                            };
                            if ok {
                                us.push(k);
                                break;
                            }
                        }
                    }
                    let xs = crate::util::extra_numbers14();
                    let number = if !xs.is_empty() && rng.chance(1, 2) { *rng.pick(&xs) } else { rng.below(16384) as u16 };
                    sels.push((rng.chance(1, 2), number, rng.chance(1, 2), us));
                }
                plays.push(new_play(build_sentence(c, &sels, &mut id)));
            }
            // with an infinite timeout a trailing lone MSB can never be polled; that is fine
            play(&mut mon, plays, Deco::Random, true, &prefix, &mut rng, rep);
            rep.count("c12_random_sentences", 1);
            rep.max("max_c12_channels_interleaved", nch as u64);
        }
        rep.distinct_nontrivial += n_random;
    });
    // encoder corollary from every explorer-reachable prior state
    if !cfg.as_c18 {
        let mut setups: Vec<(u64, u8, [u8; 2])> = vec![(0, 6, [0, 1]), (T2, 6, [0, 1])];
        for (i, p) in crate::util::value_pairs(cfg, 0xC12, 2).iter().enumerate().skip(1) {
            setups.push((T2, crate::util::rotating_channel(cfg, i), *p));
        }
        for (i, p) in crate::util::dict_pairs(cfg, 2, 1).iter().enumerate() {
            setups.push((T2, [0u8, 15, 9][i % 3], *p));
        }
        for (t, chan, vals) in setups {
            let alpha = pn_alphabet(&[chan], &vals[..], true, Some(TICK));
            let mut mon = PollMon::new(t);
            mon.p5 = false;
            let init = PollCorollary { mon, chan, seed: cfg.seed };
            let (st, _) = explore(cfg, init, &alpha, 80_000, rep, false);
            rep.states += st.states;
            rep.transitions += st.transitions;
            rep.distinct_nontrivial += st.states;
            rep.notes.insert(format!("corollary_explorer_t{}_ch{}_values{:?}", t, chan, vals), json!({"states":st.states,"transitions":st.transitions,"depth":st.depth,"fixpoint_reached":st.fixpoint}));
            if !st.fixpoint {
                rep.inconclusive("C12 corollary explorer did not reach a fixpoint");
            }
        }
    }
    rep.set_exhaustive(false);
    rep.sample(json!({"sentence":"Sel(nrpn 421) M(1) ML(2,3) L(4) Inc(5)","intended":["7-bit 1 (at the next MSB)","14-bit 2*128+3 (at the LSB)","14-bit 2*128+4","increment 5"],"decoration":"late poll at every unit boundary reports the lone MSB earlier"}));
    rep.sample(json!({"sentence":"Sel(rpn 0, LSB first) LM(1,2) M(3) <late poll>","intended":["14-bit 2*128+1","7-bit 3 (by the poll)"]}));
    if !cfg.as_c18 {
        require_observed(rep, &["c12_late_polls", "c12_early_polls", "c12_big_steps_inside_pairs", "c12_prefix_flushes_tolerated", "c12_corollary_cases", "poll_double_reports", "poll_reports_14bit"]);
    }
}
