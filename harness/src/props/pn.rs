//! C09 — (N)RPN messages encode to the well-formed Control Change sequence.
//! C10 — the (N)RPN scanner inverts the encoder for the sequences it documents.
//! C11 — the (N)RPN scanner reports exactly the justified messages.

use crate::explore::{cycles_upto2, explore, pump, starts_from, Sys};
use crate::mon::api;
use crate::report::Report;
use crate::scan::*;
use crate::spec::*;
use crate::util::{par, Cfg, Rng};
use helgoboss_midi::*;
use serde_json::json;

// ------------------------------------------------------------------------------- C09

/// the eight public constructors: (registered, kind) with kind 0 = 7-bit entry, 1 = 14-bit,
/// 2 = increment, 3 = decrement
pub const KINDS: [(bool, u8, &str); 8] = [
    (false, 0, "non_registered_7_bit"),
    (false, 1, "non_registered_14_bit"),
    (false, 2, "non_registered_increment"),
    (false, 3, "non_registered_decrement"),
    (true, 0, "registered_7_bit"),
    (true, 1, "registered_14_bit"),
    (true, 2, "registered_increment"),
    (true, 3, "registered_decrement"),
];

pub fn construct(reg: bool, kind: u8, c: u8, n: u16, v: u16) -> ParameterNumberMessage {
    let (c, n) = (ch(c), u14(n));
    match (reg, kind) {
        (false, 0) => ParameterNumberMessage::non_registered_7_bit(c, n, u7(v as u8)),
        (false, 1) => ParameterNumberMessage::non_registered_14_bit(c, n, u14(v)),
        (false, 2) => ParameterNumberMessage::non_registered_increment(c, n, u7(v as u8)),
        (false, _) => ParameterNumberMessage::non_registered_decrement(c, n, u7(v as u8)),
        (true, 0) => ParameterNumberMessage::registered_7_bit(c, n, u7(v as u8)),
        (true, 1) => ParameterNumberMessage::registered_14_bit(c, n, u14(v)),
        (true, 2) => ParameterNumberMessage::registered_increment(c, n, u7(v as u8)),
        (true, _) => ParameterNumberMessage::registered_decrement(c, n, u7(v as u8)),
    }
}

type Slot = Option<(u8, u8, u8)>;

/// The encoding the statement prescribes.
pub fn expected_slots(reg: bool, kind: u8, c: u8, n: u16, v: u16, lsb_first: bool) -> [Slot; 4] {
    let st = 0xB0 | c;
    let s0 = Some((st, if reg { 101 } else { 99 }, (n >> 7) as u8));
    let s1 = Some((st, if reg { 100 } else { 98 }, (n & 127) as u8));
    match kind {
        0 => [s0, s1, Some((st, 6, v as u8)), None],
        1 => {
            let m = Some((st, 6, (v >> 7) as u8));
            let l = Some((st, 38, (v & 127) as u8));
            if lsb_first {
                [s0, s1, l, m]
            } else {
                [s0, s1, m, l]
            }
        }
        2 => [s0, s1, Some((st, 96, v as u8)), None],
        _ => [s0, s1, Some((st, 97, v as u8)), None],
    }
}

#[inline]
fn slots_of<T: ShortMessage>(a: &[Option<T>; 4]) -> [Slot; 4] {
    let f = |m: &Option<T>| {
        m.as_ref().map(|m| {
            let b = m.to_bytes();
            (b.0, b.1.get(), b.2.get())
        })
    };
    [f(&a[0]), f(&a[1]), f(&a[2]), f(&a[3])]
}

/// full check of one message value; returns a description of the first disagreement
#[inline]
fn check_one(reg: bool, kind: u8, c: u8, n: u16, v: u16) -> Option<String> {
    let m = construct(reg, kind, c, n, v);
    let acc = (
        m.channel().get(),
        m.number().get(),
        m.value().get(),
        m.is_registered(),
        m.is_14_bit(),
        m.data_type(),
    );
    let exp_dt = match kind {
        0 | 1 => DataType::DataEntry,
        2 => DataType::DataIncrement,
        _ => DataType::DataDecrement,
    };
    if acc != (c, n, v, reg, kind == 1, exp_dt) {
        return Some(format!("accessors report {:?}", acc));
    }
    for lsb_first in [false, true] {
        let order = if lsb_first {
            DataEntryByteOrder::LsbFirst
        } else {
            DataEntryByteOrder::MsbFirst
        };
        let exp = expected_slots(reg, kind, c, n, v, lsb_first);
        let r: [Option<RawShortMessage>; 4] = m.to_short_messages(order);
        if slots_of(&r) != exp {
            return Some(format!("Raw {:?} encoding {:?}, expected {:?}", order, slots_of(&r), exp));
        }
        let s: [Option<StructuredShortMessage>; 4] = m.to_short_messages(order);
        if slots_of(&s) != exp {
            return Some(format!("Structured {:?} encoding {:?}, expected {:?}", order, slots_of(&s), exp));
        }
        // a third-party factory gets the trait's default constructors
        if (v ^ n) & 3 == 0 || v < 2 || n < 2 {
            let f: [Option<crate::carriers::Foreign>; 4] = m.to_short_messages(order);
            if slots_of(&f) != exp {
                return Some(format!("foreign factory {:?} encoding {:?}, expected {:?}", order, slots_of(&f), exp));
            }
        }
        if !lsb_first {
            let r2: [Option<RawShortMessage>; 4] = m.into();
            let s2: [Option<StructuredShortMessage>; 4] = m.into();
            if r2 != r || s2 != s {
                return Some("array conversion differs from MsbFirst encoding".to_string());
            }
        }
    }
    None
}

fn c09_case(reg: bool, kind: u8, name: &str, c: u8, n: u16, v: u16, rep: &mut Report) {
    crate::mon::set_case("pn-message", [reg as i64, kind as i64, c as i64, n as i64, v as i64, 0]);
    let r = api("ParameterNumberMessage::{constructor,accessors,to_short_messages,into}", || {
        check_one(reg, kind, c, n, v)
    });
    rep.evaluations += 1;
    let rp = json!({"kind":"pn-message","constructor":name,"channel":c,"number":n,"value":v});
    match r {
        None => crate::viol!(rep, 
            format!("C09:panic:{}", name),
            format!("{}({}, {}, {}) or its encoding panicked", name, c, n, v),
            rp,
        ),
        Some(Some(d)) => crate::viol!(rep, 
            format!("C09:encoding:{}", name),
            format!("{}({}, {}, {}): {}", name, c, n, v, d),
            rp,
        ),
        Some(None) => {}
    }
}

pub fn run_c09(cfg: &Cfg, rep: &mut Report) {
    rep.rule("8 constructors x channel x number x value x both byte orders x {Raw, Structured} + array conversion: quick = full sweep of each dimension with the others at boundary values plus seeded tuples; thorough (release build) = the full product, one monitored region per (constructor, channel, number) row; non-trivial = a message whose number and value both exceed 127 in the 14-bit case or are non-zero otherwise (all four bit slices carry information); counted per distinct tuple (the seeded part may repeat a swept tuple with probability < 1e-3) ; quick additionally covers every (channel, number) and every (channel, value) pair once");
    let bn: [u16; 9] = [0, 1, 127, 128, 129, 8191, 8192, 16382, 16383];
    let full = cfg.thorough && cfg.release && !cfg.as_c18;
    let nontriv = |kind: u8, n: u16, v: u16| -> bool {
        if kind == 1 {
            n > 127 && v > 127
        } else {
            n > 127 && v > 0
        }
    };
    if full {
        // the full product
        par(cfg, rep, |shard, nsh, rep| {
            let mut evals = 0u64;
            let mut nt = 0u64;
            for (reg, kind, name) in KINDS.iter().copied() {
                let vmax: u16 = if kind == 1 { 16383 } else { 127 };
                for c in 0u8..16 {
                    for n in (shard as u16..16384).step_by(nsh) {
                        crate::mon::set_case("pn-row", [reg as i64, kind as i64, c as i64, n as i64, 0, 0]);
                        let r = api("ParameterNumberMessage::{constructor,accessors,to_short_messages,into} (row)", || {
                            let mut first_bad: Option<u16> = None;
                            for v in 0..=vmax {
                                if check_one(reg, kind, c, n, v).is_some() && first_bad.is_none() {
                                    first_bad = Some(v);
                                }
                            }
                            first_bad.map(|v| v as u32)
                        });
                        evals += vmax as u64 + 1;
                        if n > 127 {
                            nt += if kind == 1 { vmax as u64 - 127 } else { vmax as u64 };
                        }
                        match r {
                            Some(None) => {}
                            Some(Some(v)) => c09_case(reg, kind, name, c, n, v as u16, rep),
                            None => {
                                for v in 0..=vmax {
                                    c09_case(reg, kind, name, c, n, v, rep);
                                }
                            }
                        }
                    }
                }
            }
            rep.evaluations += evals;
            rep.distinct_nontrivial += nt;
        });
        rep.set_exhaustive(true);
    } else {
        let nstride: usize = if cfg.as_c18 && !cfg.thorough { 53 } else { 1 };
        par(cfg, rep, |shard, nsh, rep| {
            let mut nt = 0u64;
            let mut rng = Rng::derive(cfg.seed, 0xC09_00 + shard as u64);
            for (reg, kind, name) in KINDS.iter().copied() {
                let vmax: u16 = if kind == 1 { 16383 } else { 127 };
                let bv: Vec<u16> = bn.iter().copied().filter(|v| *v <= vmax).collect();
                // all channels x boundary numbers x boundary values
                for c in (shard as u8..16).step_by(nsh) {
                    for &n in &bn {
                        for &v in &bv {
                            c09_case(reg, kind, name, c, n, v, rep);
                            nt += nontriv(kind, n, v) as u64;
                        }
                    }
                }
                // auto-dictionary: all channels x numbers x values formed from integer literals
                // that are new in the tree under test (nothing on the unchanged tree)
                if shard == 0 {
                    let xs = crate::util::extra_numbers14();
                    for c in 0u8..16 {
                        for &n in &xs {
                            for &v in xs.iter().chain(bv.iter()) {
                                if v <= vmax {
                                    c09_case(reg, kind, name, c, n, v, rep);
                                    nt += 1;
                                    rep.count("auto_dictionary_cases", 1);
                                }
                            }
                        }
                    }
                }
                // all numbers x channels {0, 15} x boundary values
                for n in (shard as u16..16384).step_by(nsh * nstride) {
                    for c in [0u8, 15] {
                        for &v in &bv {
                            if bn.contains(&n) {
                                continue; // already covered above
                            }
                            c09_case(reg, kind, name, c, n, v, rep);
                            nt += nontriv(kind, n, v) as u64;
                        }
                    }
                    // every (channel, number) pair with a value that differs per pair
                    if !cfg.as_c18 {
                        for c in 1u8..15 {
                            let v = ((n as u32 * 31 + c as u32 * 977 + cfg.seed as u32 * 7919) % (vmax as u32 + 1)) as u16;
                            c09_case(reg, kind, name, c, n, v, rep);
                            nt += nontriv(kind, n, v) as u64;
                        }
                    }
                }
                // all values x boundary numbers x channels {0, 15}
                for v in (shard as u16..=vmax).step_by(nsh * nstride) {
                    if bv.contains(&v) {
                        continue;
                    }
                    for c in [0u8, 15] {
                        for &n in &bn {
                            c09_case(reg, kind, name, c, n, v, rep);
                            nt += nontriv(kind, n, v) as u64;
                        }
                    }
                    // every (channel, value) pair with a number that differs per pair
                    if !cfg.as_c18 {
                        for c in 1u8..15 {
                            let n = ((v as u32 * 131 + c as u32 * 3301 + cfg.seed as u32 * 104729) % 16384) as u16;
                            c09_case(reg, kind, name, c, n, v, rep);
                            nt += nontriv(kind, n, v) as u64;
                        }
                    }
                }
            }
            // seeded tuples
            let total = cfg.size(2_000, 1_000_000, 4_000_000) / nsh as u64;
            for _ in 0..total {
                let (reg, kind, name) = *rng.pick(&KINDS);
                let vmax: u64 = if kind == 1 { 16383 } else { 127 };
                let (c, n, v) = (rng.below(16) as u8, rng.below(16384) as u16, rng.range(0, vmax) as u16);
                c09_case(reg, kind, name, c, n, v, rep);
                nt += nontriv(kind, n, v) as u64;
            }
            rep.distinct_nontrivial += nt;
        });
        rep.set_exhaustive(false);
    }
    rep.sample(json!({"message":"registered_14_bit(ch 0, 420, 15000)","LsbFirst":["B0 65 03","B0 64 24","B0 26 18","B0 06 75"],"MsbFirst":["B0 65 03","B0 64 24","B0 06 75","B0 26 18"]}));
    rep.sample(json!({"message":"non_registered_decrement(ch 15, 16383, 127)","either_order":["BF 63 7F","BF 62 7F","BF 61 7F",null]}));
}

// ------------------------------------------------------------------------------- C11

impl Sys for PnMon {
    type Sym = Ev;
    fn key(&self, buf: &mut Vec<u8>, scratch: &mut String) {
        debug_into(&self.real, scratch);
        buf.extend_from_slice(scratch.as_bytes());
        for h in self.h.iter() {
            buf.extend_from_slice(&[
                h.msb.map(|v| v + 1).unwrap_or(0),
                h.lsb.map(|v| v + 1).unwrap_or(0),
                h.registered as u8,
                h.v38.map(|v| v + 1).unwrap_or(0),
            ]);
        }
    }
    fn step(&mut self, sym: &Ev, rep: &mut Report, path: &dyn Fn() -> Vec<String>) {
        self.apply(sym, rep, path);
    }
    fn render(sym: &Ev) -> String {
        sym.render()
    }
}

pub fn pn_alphabet(channels: &[u8], values: &[u8], with_polls: bool, tick: Option<u64>) -> Vec<Ev> {
    let mut a = Vec::new();
    for &c in channels {
        for n in [98u8, 99, 100, 101, 38, 6, 96, 97] {
            for &v in values {
                a.push(Ev::cc(c, n, v));
            }
        }
        // non-contributing controllers on the channel: neighbours of the contributing ones and
        // the channel mode controllers (first channel: every non-contributing controller number)
        if c == channels[0] && channels.len() == 1 {
            for n in 0u8..128 {
                if !is_pn_controller(n) {
                    a.push(Ev::cc(c, n, 1));
                }
            }
        } else {
            for n in [5u8, 7, 37, 39, 95, 102, 120, 121, 123, 127] {
                a.push(Ev::cc(c, n, 1));
            }
        }
        a.push(Ev::Msg(0x90 | c, 6, 38));
        a.push(Ev::Msg(0xE0 | c, 98, 99));
        // system messages whose low status nibble equals the channel and whose data bytes look
        // like contributing controller numbers (a wrong status mask would route them here)
        for n in [6u8, 38, 96, 99, 100] {
            a.push(Ev::Msg(0xF0 | c, n, 1));
        }
        if with_polls {
            a.push(Ev::Poll(c));
        }
    }
    a.push(Ev::Msg(0xF8, 0, 0));
    a.push(Ev::Msg(0xF2, 6, 38));
    if let Some(t) = tick {
        a.push(Ev::Tick(t));
        #[cfg(feature = "std")]
        if with_polls {
            // a poll right after a clock step just past a boundary of common time
            // representations (2^32 ns, 1 s, 2^32 us, 1 h), from every state
            for &c in channels {
                for h in crate::poll::hostile_ticks(t) {
                    a.push(Ev::TickPoll(h, c));
                }
            }
        }
    }
    a.push(Ev::Reset);
    a
}

/// a random event of the hostile (N)RPN alphabet
pub fn random_pn_event(rng: &mut Rng, channels: u8, nvalues: u8, polls: bool, ticks: &[u64]) -> Ev {
    let dict = nvalues == 200;
    let any_c = rng.below(channels as u64) as u8;
    let c = if dict && channels > 4 {
        // manager / member / drum channels of the specs are more likely than the rest
        *rng.pick(&[0u8, 0, 1, 2, 3, 9, 12, 14, 15, 15, any_c])
    } else {
        any_c
    };
    let extra = crate::util::extra_literals();
    let v = if dict && !extra.is_empty() && rng.chance(1, 2) {
        let x = *rng.pick(extra);
        if x <= 127 { x as u8 } else if rng.chance(1, 2) { (x >> 7) as u8 } else { (x & 127) as u8 }
    } else if dict {
        *rng.pick(&crate::util::DICT_VALUES)
    } else if nvalues >= 128 {
        rng.below(128) as u8
    } else {
        [0u8, 127, 1, 64][rng.below(nvalues as u64) as usize]
    };
    let r = rng.below(if polls { 118 } else if ticks.is_empty() { 100 } else { 103 });
    if !polls && r >= 100 {
        // clock steps between the messages of a clock-free scanner
        return Ev::Tick(*rng.pick(ticks));
    }
    if dict && (46..=73).contains(&r) {
        // parameter number bytes from the dictionary (MSB mostly 0, as for the standard RPNs)
        let cn = [98u8, 99, 100, 101, 100, 101][rng.below(6) as usize];
        let is_msb = cn == 99 || cn == 101;
        let nv = if is_msb { *rng.pick(&[0u8, 0, 0, 0x3D, 127, 1]) } else { *rng.pick(&crate::util::DICT_NUMBER_BYTES) };
        return Ev::cc(c, cn, nv);
    }
    match r {
        0..=17 => Ev::cc(c, 6, v),
        18..=31 => Ev::cc(c, 38, v),
        32..=39 => Ev::cc(c, 96, v),
        40..=45 => Ev::cc(c, 97, v),
        46..=53 => Ev::cc(c, 98, v),
        54..=61 => Ev::cc(c, 99, v),
        62..=67 => Ev::cc(c, 100, v),
        68..=73 => Ev::cc(c, 101, v),
        74..=81 => {
            // non-contributing CC
            let mut n = rng.below(128) as u8;
            while is_pn_controller(n) {
                n = rng.below(128) as u8;
            }
            Ev::cc(c, n, v)
        }
        82..=89 => {
            let hi = *rng.pick(&[0x80u8, 0x90, 0xA0, 0xC0, 0xD0, 0xE0]);
            Ev::Msg(hi | c, *rng.pick(&[6u8, 38, 96, 98, 99, 101, 0, 127]), rng.below(128) as u8)
        }
        90..=95 => Ev::Msg(0xF0 + rng.below(16) as u8, *rng.pick(&[6u8, 38, 99, 0]), rng.below(128) as u8),
        96..=97 => Ev::Reset,
        98..=99 => Ev::cc(c, rng.below(128) as u8, v),
        100..=109 => Ev::Poll(c),
        _ => Ev::Tick(*rng.pick(ticks)),
    }
}

pub fn run_c11(cfg: &Cfg, rep: &mut Report) {
    rep.rule("fixpoint exploration of (real scanner x history oracle): alphabet = controllers {98,99,100,101,38,6,96,97} x abstract values, non-contributing representatives, system messages, reset, on one channel and on two channels; plus seeded random histories over the full 16x128x128 alphabet (few-value and full-value mixes, 1-16 channels); distinct_nontrivial = explorer states + random histories in which at least one message was reported ; explorer runs rotate their abstract values and channels (fixed pair {0,1}, seeded pairs, spec-dictionary pairs such as {0,6}, {0,3}; thorough/release: every 7-bit value) ; repetition (pumping) workloads repeat every cycle of one or two symbols and every documented unit form 300x (unit forms and single symbols 66 000x) from several start states, applying all tail symbols to a copy after each iteration ; a third of the random histories draws number bytes, values and channels from the spec dictionary");
    let base: Vec<u8> = if cfg.thorough && !cfg.as_c18 { vec![0, 1, 127] } else { vec![0, 1] };
    let mut setups: Vec<(Vec<u8>, Vec<u8>)> = if cfg.as_c18 {
        vec![(vec![2], base.clone())]
    } else {
        vec![(vec![0], base.clone()), (vec![15], base.clone()), (vec![3, 12], vec![0, 1])]
    };
    if !cfg.as_c18 {
        // rotating abstract values and channels (data independence is attacked, not assumed)
        for (i, p) in crate::util::value_pairs(cfg, 0xC11, 4).iter().enumerate().skip(1) {
            setups.push((vec![crate::util::rotating_channel(cfg, i)], vec![p[0], p[1]]));
        }
        let c2 = [crate::util::rotating_channel(cfg, 5), crate::util::rotating_channel(cfg, 6)];
        setups.push((c2.to_vec(), vec![crate::util::value_pairs(cfg, 0xC11, 4).last().unwrap()[0], 127]));
    }
    if !cfg.as_c18 {
        // spec dictionary: standard RPN numbers / significant values, also across a manager and a
        // member channel
        for (i, p) in crate::util::dict_pairs(cfg, 2, 1).iter().enumerate() {
            setups.push((vec![[0u8, 15, 9][i % 3]], vec![p[0], p[1]]));
        }
        setups.push((vec![0, 3], vec![0, 6]));
        setups.push((vec![15, 12], vec![0, 6]));
    }
    // auto-dictionary: values taken from integer literals that are new in the tree under test
    let extra = crate::util::extra_values7();
    if !extra.is_empty() && !cfg.as_c18 {
        for c in crate::util::extra_channels() {
            setups.push((vec![c], extra.clone()));
        }
        rep.count("auto_dictionary_explorer_runs", crate::util::extra_channels().len() as u64);
    }
    for (chans, values) in setups {
        let alpha = pn_alphabet(&chans, &values, false, None);
        let (st, _) = explore(cfg, PnMon::new(), &alpha, if values.len() > 3 { 400_000 } else if chans.len() > 1 { 80_000 } else { 30_000 }, rep, false);
        rep.states += st.states;
        rep.transitions += st.transitions;
        rep.evaluations += st.transitions;
        rep.distinct_nontrivial += st.states;
        rep.max("max_explorer_depth", st.depth);
        if !st.fixpoint && values.len() <= 3 {
            rep.inconclusive("C11 explorer did not reach a fixpoint within the state bound");
        }
        rep.count("explorer_runs", 1);
        if rep.notes.len() < 12 {
            rep.notes.insert(
                format!("explorer_channels_{:?}_values_{:?}", chans, values),
                json!({"states":st.states,"transitions":st.transitions,"depth":st.depth,"fixpoint_reached":st.fixpoint,"alphabet":alpha.len(),"values":values}),
            );
        }
    }
    // repetition workload (counters, epochs, streak heuristics)
    {
        let c = crate::util::rotating_channel(cfg, 2);
        let (x, y, xn, l, m, i) = (Ev::cc(c, 101, 3), Ev::cc(c, 100, 4), Ev::cc(c, 99, 3), Ev::cc(c, 38, 9), Ev::cc(c, 6, 5), Ev::cc(c, 96, 2));
        let syms = [x, y, xn, l, m, i, Ev::cc(c, 7, 1), Ev::Reset];
        let starts = starts_from(&PnMon::new(), &[vec![], vec![x], vec![x, y], vec![x, y, l], vec![x, y, l, m]], rep);
        let tail = [x, y, l, m, i];
        let units: Vec<Vec<Ev>> = vec![vec![x, y, m], vec![x, y, l, m], vec![x, y, i], vec![l, m], vec![y, x, m]];
        if cfg.thorough && cfg.release && !cfg.as_c18 {
            pump(cfg, rep, &starts, &cycles_upto2(&syms, &units), 66_000, &tail, true);
        } else {
            pump(cfg, rep, &starts, &cycles_upto2(&syms, &units), cfg.size(20, 300, 1000) as usize, &tail, true);
            if !cfg.as_c18 {
                pump(cfg, rep, &starts, &units, 66_000, &tail, false);
            }
        }
    }
    let total = cfg.size(2_000, 12_000_000, 300_000_000);
    par(cfg, rep, |shard, nsh, rep| {
        let mut rng = Rng::derive(cfg.seed, 0xC11_00 + shard as u64);
        let per = total / nsh as u64;
        let mut done = 0u64;
        let mut with_report = 0u64;
        let mut hist_count = 0u64;
        while done < per {
            let len = rng.range(5, 150);
            let nvalues = *rng.pick(&[2u8, 3, 4, 128, 200, 200]);
            let chans = *rng.pick(&[1u8, 1, 2, 3, 16]);
            let mut mon = PnMon::new();
            let mut hist: Vec<Ev> = Vec::with_capacity(len as usize);
            let mut reported = false;
            for _ in 0..len {
                let e = random_pn_event(&mut rng, chans, nvalues, false, &crate::scan::TIME_SHIFTS);
                hist.push(e);
                let h = &hist;
                if mon.apply(&e, rep, &|| h.iter().map(|e| e.render()).collect()).is_some() {
                    reported = true;
                }
            }
            done += len;
            hist_count += 1;
            with_report += reported as u64;
            if shard == 0 && hist_count == 2 {
                rep.sample(json!({"random_history": hist.iter().take(14).map(|e| e.render()).collect::<Vec<_>>(), "length": len}));
            }
        }
        rep.evaluations += done;
        rep.distinct_nontrivial += with_report;
        rep.count("random_histories", hist_count);
        rep.count("random_histories_with_report", with_report);
    });
    rep.set_exhaustive(false);
    rep.sample(json!({"history":["B2 63 03","B2 62 25","B2 26 18","B2 06 75","B2 62 26","B2 06 01"],"expected_reports":["-","-","-","14-bit nrpn 421 = 15000","-","7-bit nrpn 422 = 1 (number byte cleared the stored LSB)"]}));
    let seen: u64 = ["pn_reports_14bit", "pn_reports_7bit", "pn_reports_increment", "pn_reports_decrement"]
        .iter()
        .map(|k| rep.counters.get(*k).copied().unwrap_or(0).min(1))
        .sum();
    if seen < 4 {
        rep.inconclusive("not every report kind (7-bit, 14-bit, increment, decrement) was observed");
    }
}

// ------------------------------------------------------------------------------- C10

/// Encoding of a message as the list of CC events (independent of the crate's encoder).
pub fn encode_events(m: &PnM, lsb_first: bool) -> Vec<Ev> {
    let kind = if m.is14 { 1 } else { [0u8, 2, 3][m.dt as usize] };
    expected_slots(m.registered, kind, m.ch, m.number, m.value, lsb_first)
        .iter()
        .flatten()
        .map(|(s, a, b)| Ev::Msg(*s, *a, *b))
        .collect()
}

fn random_message(rng: &mut Rng) -> PnM {
    let is14 = rng.chance(1, 3);
    let dt = if is14 { 0 } else { rng.below(3) as u8 };
    let (rn, rv14, rv7) = (rng.below(16384) as u16, rng.below(16384) as u16, rng.below(128) as u16);
    PnM {
        ch: rng.below(16) as u8,
        number: *rng.pick(&[0u16, 1, 127, 128, 420, 421, 8192, 16383, rn]),
        value: if is14 {
            *rng.pick(&[0u16, 1, 127, 128, 15000, 16383, rv14])
        } else {
            *rng.pick(&[0u16, 1, 126, 127, rv7])
        },
        registered: rng.chance(1, 2),
        is14,
        dt,
    }
}

/// feeds one unit (the crate's own encoding of `m`) to the monitor; all feeds but the last must
/// return nothing, the last exactly `m`.
fn feed_unit(mon: &mut PnMon, hist: &mut Vec<Ev>, m: &PnM, events: &[Ev], what: &str, rep: &mut Report) {
    let k = events.len();
    for (i, e) in events.iter().enumerate() {
        if i > 0 && (m.value as usize + m.number as usize + i) % 3 == 0 {
            // time passes between the messages of one encoding (the scanner has no clock)
            let step = Ev::Tick(crate::scan::TIME_SHIFTS[(m.value as usize / 3 + i) % 8]);
            hist.push(step);
            mon.apply(&step, rep, &|| vec![]);
            rep.count("c10_pauses_inside_an_encoding", 1);
        }
        hist.push(*e);
        let got = {
            let h: &Vec<Ev> = hist;
            mon.apply(e, rep, &|| h.iter().map(|e| e.render()).collect())
        };
        let want = if i + 1 == k { Some(*m) } else { None };
        if got != want {
            let h: &Vec<Ev> = hist;
            crate::viol!(rep, 
                format!("C10:{}:{}", what, if i + 1 == k { "last-feed" } else { "early-feed" }),
                format!(
                    "{}: feed #{} of {} ({}) returned {:?}, expected {:?}",
                    what,
                    i + 1,
                    k,
                    e.render(),
                    got,
                    want
                ),
                history_json("pn", None, &|| h.iter().map(|e| e.render()).collect(), json!(format!("{:?}", want)), json!(format!("{:?}", got))),
            );
        }
    }
}

fn crate_encoding(m: &PnM, lsb_first: bool, rep: &mut Report) -> Vec<Ev> {
    let msg = m.build();
    let order = if lsb_first {
        DataEntryByteOrder::LsbFirst
    } else {
        DataEntryByteOrder::MsbFirst
    };
    let r = api("ParameterNumberMessage::to_short_messages", || {
        let a: [Option<RawShortMessage>; 4] = msg.to_short_messages(order);
        a
    });
    match r {
        Some(a) => a
            .iter()
            .flatten()
            .map(|x| {
                let b = x.to_bytes();
                Ev::Msg(b.0, b.1.get(), b.2.get())
            })
            .collect(),
        None => {
            crate::viol!(rep, "C10:panic:encode", format!("encoding {:?} panicked", m), json!({"kind":"pn-message","message":m.json()}));
            vec![]
        }
    }
}

fn c10_message_after_state(base: &PnMon, prefix: &[String], m: &PnM, rep: &mut Report) {
    // 7-bit/inc/dec: either byte order parameter; 14-bit: LSB first (the form the scanner documents)
    let orders: &[bool] = if m.is14 { &[true] } else { &[false, true] };
    // second pass (std builds, which have a clock): time passes between the messages
    let passes: &[bool] = if cfg!(feature = "std") { &[false, true] } else { &[false] };
    for (&lf, &pauses) in orders.iter().flat_map(|o| passes.iter().map(move |p| (o, p))) {
        let mut mon = base.clone();
        let evs = crate_encoding(m, lf, rep);
        let mut hist: Vec<Ev> = Vec::new();
        // render prefix lazily via a fake history: we keep the prefix as strings
        let k = evs.len();
        for (i, e) in evs.iter().enumerate() {
            if pauses {
                let step = Ev::Tick(crate::scan::TIME_SHIFTS[(m.value as usize + m.number as usize + i) % 8]);
                hist.push(step);
                mon.apply(&step, rep, &|| vec![]);
            }
            hist.push(*e);
            let got = {
                let h = &hist;
                mon.apply(e, rep, &|| prefix.iter().cloned().chain(h.iter().map(|e| e.render())).collect())
            };
            let want = if i + 1 == k { Some(*m) } else { None };
            rep.evaluations += 1;
            if got != want {
                let h = &hist;
                crate::viol!(rep, 
                    format!("C10:encoding-after-prior-state:{}", if i + 1 == k { "last-feed" } else { "early-feed" }),
                    format!("feed #{} of {} ({}) returned {:?}, expected {:?}", i + 1, k, e.render(), got, want),
                    history_json("pn", None, &|| prefix.iter().cloned().chain(h.iter().map(|e| e.render())).collect(), json!(format!("{:?}", want)), json!(format!("{:?}", got))),
                );
            }
        }
    }
}

/// Visitor system: explores the abstract state space and, at every discovered state, feeds the
/// encodings of a message sample (C10 "regardless of what the scanner was fed before").
#[derive(Clone)]
struct PnVisit {
    mon: PnMon,
    sample: std::sync::Arc<Vec<PnM>>,
}

impl Sys for PnVisit {
    type Sym = Ev;
    fn key(&self, buf: &mut Vec<u8>, scratch: &mut String) {
        self.mon.key(buf, scratch)
    }
    fn step(&mut self, sym: &Ev, rep: &mut Report, path: &dyn Fn() -> Vec<String>) {
        self.mon.apply(sym, rep, path);
    }
    fn render(sym: &Ev) -> String {
        sym.render()
    }
    fn visit(&self, rep: &mut Report, path: &dyn Fn() -> Vec<String>) {
        let prefix = path();
        for m in self.sample.iter() {
            c10_message_after_state(&self.mon, &prefix, m, rep);
        }
        rep.count("explorer_states_used_as_prior_state", 1);
    }
}

pub fn run_c10(cfg: &Cfg, rep: &mut Report) {
    rep.rule("crate encoder -> scanner: every message kind (7-bit, increment, decrement in either byte-order parameter; 14-bit LSB-first) for all numbers x boundary values, all values x boundary numbers, all channels, after (a) every reachable abstract scanner state found by a fixpoint explorer and (b) seeded junk histories over the full alphabet; running forms x y D D D.. and x y L M L M.. up to length 8 (thorough 32) and seeded longer; non-trivial = unit fed to a scanner that is not in its initial state; distinct by (prior state, message) ; the prior-state explorer rotates its abstract values/channels and the message sample contains the numbers that can be formed from them ; one 7-bit encoding is fed 70 000 times after a 14-bit message");
    // (a) explorer states x message sample; abstract values rotate, and the sample contains the
    // parameter numbers that can be formed from them (same-number re-selection included)
    let mut rng = Rng::derive(cfg.seed, 0xC10);
    let mut tot_states = 0u64;
    for (run, pair) in crate::util::value_pairs(cfg, 0xC10, 3).iter().enumerate() {
        let chan = if run == 0 { 3 } else { crate::util::rotating_channel(cfg, run) };
        let (a, b) = (pair[0] as u16, pair[1] as u16);
        let numbers = [a * 128 + b, b * 128 + a, a * 128 + a, b * 128 + b, 16383, 0];
        let mut sample: Vec<PnM> = Vec::new();
        for (reg, kind, _) in KINDS.iter().copied() {
            let is14 = kind == 1;
            for (i, &n) in numbers.iter().enumerate() {
                let v = [a, b, 127, 0, 1, 64][i];
                sample.push(PnM {
                    ch: chan,
                    number: n,
                    value: if is14 { (v * 128 + b) % 16384 } else { v },
                    registered: reg,
                    is14,
                    dt: [0u8, 0, 1, 2][kind as usize],
                });
            }
        }
        for _ in 0..cfg.size(2, 8, 32) {
            sample.push(random_message(&mut rng));
        }
        let alpha = pn_alphabet(&[chan], &[pair[0], pair[1]], false, None);
        let init = PnVisit {
            mon: PnMon::new(),
            sample: std::sync::Arc::new(sample),
        };
        let (st, _) = explore(cfg, init, &alpha, 30_000, rep, false);
        rep.states += st.states;
        rep.transitions += st.transitions;
        rep.distinct_nontrivial += st.states;
        tot_states += st.states;
        if run < 4 {
            rep.notes.insert(
                format!("prior_state_explorer_ch{}_values_{:?}", chan, pair),
                json!({"states":st.states,"transitions":st.transitions,"depth":st.depth,"fixpoint_reached":st.fixpoint}),
            );
        }
        if !st.fixpoint {
            rep.inconclusive("C10 prior-state explorer did not reach a fixpoint");
        }
    }
    // auto-dictionary: prior states and messages formed from integer literals that are new in
    // the tree under test (nothing on the unchanged tree)
    let extra = crate::util::extra_values7();
    if !extra.is_empty() && !cfg.as_c18 {
        let nums = crate::util::extra_numbers14();
        for chan in crate::util::extra_channels() {
            let mut sample: Vec<PnM> = Vec::new();
            for (reg, kind, _) in KINDS.iter().copied() {
                let is14 = kind == 1;
                for &n in nums.iter().take(12) {
                    for &v in nums.iter().take(6).chain([0u16, 127].iter()) {
                        if is14 || v <= 127 {
                            sample.push(PnM { ch: chan, number: n, value: v, registered: reg, is14, dt: [0u8, 0, 1, 2][kind as usize] });
                        }
                    }
                }
            }
            let step = (sample.len() / 96).max(1);
            let sample: Vec<PnM> = sample.into_iter().step_by(step).collect();
            let alpha = pn_alphabet(&[chan], &extra, false, None);
            let init = PnVisit { mon: PnMon::new(), sample: std::sync::Arc::new(sample) };
            let (st, _) = explore(cfg, init, &alpha, 20_000, rep, false);
            rep.states += st.states;
            rep.transitions += st.transitions;
            tot_states += st.states;
            rep.count("auto_dictionary_explorer_runs", 1);
        }
        // and straight encodings of every extra message on every channel
        let mut mon = PnMon::new();
        let mut hist: Vec<Ev> = Vec::new();
        for c in 0u8..16 {
            for (reg, kind, _) in KINDS.iter().copied() {
                let is14 = kind == 1;
                for &n in &nums {
                    for &v in nums.iter().take(if c == 0 || c == 9 || c == 15 { 88 } else { 12 }) {
                        if is14 || v <= 127 {
                            let m = PnM { ch: c, number: n, value: v, registered: reg, is14, dt: [0u8, 0, 1, 2][kind as usize] };
                            let evs = crate_encoding(&m, is14, rep);
                            if hist.len() > 2048 {
                                hist.clear();
                                hist.push(Ev::Reset);
                                mon.apply(&Ev::Reset, rep, &|| vec!["reset".into()]);
                            }
                            feed_unit(&mut mon, &mut hist, &m, &evs, "encoding", rep);
                            rep.count("auto_dictionary_cases", 1);
                        }
                    }
                }
            }
        }
    }
    rep.count("prior_state_explorer_states_total", tot_states);

    // (b) sweeps of message values after seeded junk, never-fresh scanner; running forms
    let bn: [u16; 7] = [0, 1, 127, 128, 8192, 16382, 16383];
    let nstride: usize = if cfg.as_c18 && !cfg.thorough { 61 } else { 1 };
    let max_run = cfg.size(4, 8, 32) as usize;
    par(cfg, rep, |shard, nsh, rep| {
        let mut rng = Rng::derive(cfg.seed, 0xC10_00 + shard as u64);
        let mut mon = PnMon::new();
        let mut hist: Vec<Ev> = Vec::new();
        let mut units = 0u64;
        let junk = |mon: &mut PnMon, hist: &mut Vec<Ev>, rng: &mut Rng, rep: &mut Report| {
            if hist.len() > 2000 {
                hist.clear();
                hist.push(Ev::Reset);
                mon.apply(&Ev::Reset, rep, &|| vec!["reset".into()]);
            }
            for _ in 0..rng.below(4) {
                let e = random_pn_event(rng, 16, 128, false, &crate::scan::TIME_SHIFTS);
                hist.push(e);
                let h: &Vec<Ev> = hist;
                mon.apply(&e, rep, &|| h.iter().map(|e| e.render()).collect());
            }
        };
        let one = |m: PnM, mon: &mut PnMon, hist: &mut Vec<Ev>, rng: &mut Rng, rep: &mut Report| {
            junk(mon, hist, rng, rep);
            let lf = if m.is14 { true } else { rng.chance(1, 2) };
            let evs = crate_encoding(&m, lf, rep);
            feed_unit(mon, hist, &m, &evs, "encoding", rep);
        };
        for (reg, kind, _) in KINDS.iter().copied() {
            let is14 = kind == 1;
            let dt = [0u8, 0, 1, 2][kind as usize];
            let vmax: u16 = if is14 { 16383 } else { 127 };
            for n in (shard as u16..16384).step_by(nsh * nstride) {
                for &v in bn.iter().filter(|v| **v <= vmax) {
                    let m = PnM { ch: (n % 16) as u8, number: n, value: v, registered: reg, is14, dt };
                    one(m, &mut mon, &mut hist, &mut rng, rep);
                    units += 1;
                }
            }
            for v in (shard as u16..=vmax).step_by(nsh * nstride) {
                for &n in &bn {
                    let m = PnM { ch: (v % 16) as u8, number: n, value: v, registered: reg, is14, dt };
                    one(m, &mut mon, &mut hist, &mut rng, rep);
                    units += 1;
                }
            }
        }
        // running forms after one number selection
        let runs = cfg.size(20, 12_000, 300_000) / nsh as u64;
        for r in 0..runs {
            junk(&mut mon, &mut hist, &mut rng, rep);
            let base = random_message(&mut rng);
            let len = if r % 10 == 0 { rng.range(1, 200) as usize } else { rng.range(1, max_run as u64) as usize };
            let st = 0xB0 | base.ch;
            // number selection (either order of the two number bytes)
            let sel = expected_slots(base.registered, 0, base.ch, base.number, 0, false);
            let mut selv: Vec<Ev> = sel[..2].iter().flatten().map(|(s, a, b)| Ev::Msg(*s, *a, *b)).collect();
            if rng.chance(1, 2) {
                selv.reverse();
            }
            for e in &selv {
                hist.push(*e);
                let got = {
                    let h: &Vec<Ev> = &hist;
                    mon.apply(e, rep, &|| h.iter().map(|e| e.render()).collect())
                };
                if got.is_some() {
                    let h: &Vec<Ev> = &hist;
                    crate::viol!(rep, 
                        "C10:running-form:selection-reports",
                        format!("number selection byte {} returned {:?}", e.render(), got),
                        history_json("pn", None, &|| h.iter().map(|e| e.render()).collect(), json!("None"), json!(format!("{:?}", got))),
                    );
                }
            }
            if base.is14 {
                // x y L M L M ...
                for _ in 0..len {
                    let v = rng.below(16384) as u16;
                    let m = PnM { value: v, ..base };
                    let evs = [Ev::Msg(st, 38, (v & 127) as u8), Ev::Msg(st, 6, (v >> 7) as u8)];
                    feed_unit(&mut mon, &mut hist, &m, &evs, "running-form-LM", rep);
                    units += 1;
                }
            } else {
                // x y D D D ... (data entry MSB / increment / decrement, mixed)
                for _ in 0..len {
                    let v = rng.below(128) as u16;
                    let dt = if rng.chance(1, 2) { base.dt } else { rng.below(3) as u8 };
                    let m = PnM { value: v, dt, ..base };
                    let evs = [Ev::Msg(st, [6u8, 96, 97][dt as usize], v as u8)];
                    feed_unit(&mut mon, &mut hist, &m, &evs, "running-form-D", rep);
                    units += 1;
                }
            }
            rep.count("running_forms", 1);
            rep.max("max_running_form_length", len as u64);
        }
        rep.evaluations += units;
        rep.distinct_nontrivial += units;
        rep.count("units_fed_to_never_fresh_scanner", units);
    });
    // thorough/release: the full product number x value x kind x registered through the real
    // encoder into a never-fresh scanner (one monitored region per (kind, number) row)
    if cfg.thorough && cfg.release && !cfg.as_c18 {
        par(cfg, rep, |shard, nsh, rep| {
            let mut sc = ParameterNumberMessageScanner::new();
            let mut evals = 0u64;
            for n in (shard as u16..16384).step_by(nsh) {
                let c = (n % 16) as u8;
                for (reg, kind, name) in KINDS.iter().copied() {
                    let vmax: u16 = if kind == 1 { 16383 } else { 127 };
                    crate::mon::set_case("pn-scan-row", [reg as i64, kind as i64, c as i64, n as i64, 0, 0]);
                    let r = api("ParameterNumberMessage::to_short_messages -> ParameterNumberMessageScanner::feed (row)", || {
                        let mut bad: Option<u32> = None;
                        for v in 0..=vmax {
                            let m = construct(reg, kind, c, n, v);
                            let order = if kind == 1 || v % 2 == 0 { DataEntryByteOrder::LsbFirst } else { DataEntryByteOrder::MsbFirst };
                            let enc: [Option<RawShortMessage>; 4] = m.to_short_messages(order);
                            let k = enc.iter().flatten().count();
                            for (i, sm) in enc.iter().flatten().enumerate() {
                                let out = sc.feed(sm);
                                let ok = if i + 1 == k { out == Some(m) } else { out.is_none() };
                                if !ok && bad.is_none() {
                                    bad = Some(v as u32);
                                }
                            }
                        }
                        bad
                    });
                    evals += vmax as u64 + 1;
                    if r != Some(None) {
                        crate::viol!(
                            rep,
                            format!("C10:full-product:{}", name),
                            format!("{}(ch {}, number {}, value {:?}): feeding the encoder's output did not report exactly the original on the last message", name, c, n, r.flatten()),
                            json!({"kind":"pn-message","constructor":name,"channel":c,"number":n,"first_bad_value":r.flatten()})
                        );
                    }
                }
            }
            rep.evaluations += evals;
            rep.distinct_nontrivial += evals;
            rep.count("full_product_units", evals);
        });
    }
    // a very long run of one documented form after a 14-bit message (wrapping counters): the
    // same 7-bit message encoded and fed 70 000 times must be reported 70 000 times
    if !cfg.as_c18 {
        let c = crate::util::rotating_channel(cfg, 4);
        let mut mon = PnMon::new();
        let mut hist: Vec<Ev> = Vec::new();
        let first = PnM { ch: c, number: 1234, value: 9005, registered: false, is14: true, dt: 0 };
        let evs = crate_encoding(&first, true, rep);
        feed_unit(&mut mon, &mut hist, &first, &evs, "long-run-prefix", rep);
        let n = cfg.size(10, 70_000, 140_000);
        for k in 0..n {
            let m = PnM { ch: c, number: 1234, value: (k % 128) as u16, registered: false, is14: false, dt: 0 };
            let evs = crate_encoding(&m, false, rep);
            let before = rep.own_violations("C10");
            feed_unit(&mut mon, &mut hist, &m, &evs, "long-run-of-7bit-encodings", rep);
            if rep.own_violations("C10") > before {
                break;
            }
        }
        rep.evaluations += n;
        rep.count("long_run_units", n);
    }
    rep.set_exhaustive(false);
    rep.sample(json!({"prior":"stale data entry LSB from an earlier 14-bit message","unit":"registered_7_bit(ch 3, 129, 1) encoded as B3 65 01 / B3 64 01 / B3 06 01","expected":"None, None, Some(7-bit original)"}));
    rep.sample(json!({"running_form":"x y L M L M","expected":"each pair yields the 14-bit message of that pair"}));
}
