//! C07 — 14-bit Control Change: encoding is correct and the scanner inverts it.
//! C08 — the 14-bit CC scanner reports exactly the justified messages.

use crate::explore::{cycles_upto2, explore, pump, starts_from, Sys};
use crate::mon::{api, api_probe, note_expected_panic};
use crate::report::Report;
use crate::scan::*;
use crate::spec::*;
use crate::util::{par, Cfg, Rng};
use helgoboss_midi::*;
use serde_json::json;

impl Sys for Cc14Mon {
    type Sym = Ev;
    fn key(&self, buf: &mut Vec<u8>, scratch: &mut String) {
        debug_into(&self.real, scratch);
        buf.extend_from_slice(scratch.as_bytes());
        for m in self.last_msb.iter() {
            match m {
                None => buf.extend_from_slice(&[255, 255]),
                Some((n, v)) => buf.extend_from_slice(&[*n, *v]),
            }
        }
    }
    fn step(&mut self, sym: &Ev, rep: &mut Report, path: &dyn Fn() -> Vec<String>) {
        self.apply(sym, rep, path);
    }
    fn render(sym: &Ev) -> String {
        sym.render()
    }
}

/// a random event of the hostile 14-bit CC alphabet
pub fn random_cc14_event(rng: &mut Rng, channels: u8, few_values: bool) -> Ev {
    let c = rng.below(channels as u64) as u8;
    let v = if few_values {
        *rng.pick(&[0u8, 1, 127])
    } else {
        rng.below(128) as u8
    };
    match rng.below(100) {
        0..=39 => Ev::cc(c, rng.below(32) as u8, v),
        40..=79 => Ev::cc(c, 32 + rng.below(32) as u8, v),
        80..=85 => Ev::cc(c, 64 + rng.below(64) as u8, v),
        86..=91 => {
            // non-CC channel message
            let hi = *rng.pick(&[0x80u8, 0x90, 0xA0, 0xC0, 0xD0, 0xE0]);
            Ev::Msg(hi | c, rng.below(128) as u8, rng.below(128) as u8)
        }
        92..=96 => Ev::Msg(0xF0 + rng.below(16) as u8, rng.below(128) as u8, rng.below(128) as u8),
        97 => Ev::Reset,
        98 => Ev::Tick(crate::scan::TIME_SHIFTS[rng.below(8) as usize]),
        _ => Ev::cc(c, rng.below(128) as u8, v),
    }
}

fn check_message(c: u8, n: u8, v: u16, mon: &mut Cc14Mon, rng: &mut Rng, hist: &mut Vec<Ev>, rep: &mut Report) {
    let rp = json!({"kind":"cc14-message","channel":c,"msb_controller_number":n,"value":v});
    // construct + accessors + encode for both carriers
    let r = api("ControlChange14BitMessage::{new,accessors,to_short_messages,into}", || {
        let m = ControlChange14BitMessage::new(ch(c), cn(n), u14(v));
        let raw: [RawShortMessage; 2] = m.to_short_messages();
        let st: [StructuredShortMessage; 2] = m.to_short_messages();
        let raw2: [RawShortMessage; 2] = m.into();
        let st2: [StructuredShortMessage; 2] = m.into();
        let fo: [crate::carriers::Foreign; 2] = m.to_short_messages();
        let fo_ok = fo[0].to_bytes() == raw[0].to_bytes() && fo[1].to_bytes() == raw[1].to_bytes();
        (
            m,
            (m.channel(), m.msb_controller_number(), m.lsb_controller_number(), m.value()),
            [raw[0].to_bytes(), raw[1].to_bytes()],
            [st[0].to_bytes(), st[1].to_bytes()],
            raw2 == raw && st2 == st && fo_ok,
        )
    });
    rep.evaluations += 1;
    let Some((m, acc, rb, sb, same)) = r else {
        crate::viol!(rep, 
            "C07:panic:construct-or-encode",
            format!("ControlChange14BitMessage::new({}, {}, {}) or its encoding panicked", c, n, v),
            rp,
        );
        return;
    };
    if (acc.0.get(), acc.1.get(), acc.2.get(), acc.3.get()) != (c, n, n + 32, v) {
        crate::viol!(rep, 
            "C07:accessors",
            format!("message ({},{},{}) reports back {:?}", c, n, v, acc),
            rp.clone(),
        );
    }
    let exp = [(0xB0 | c, n, (v >> 7) as u8), (0xB0 | c, n + 32, (v & 127) as u8)];
    let nb = |b: (u8, U7, U7)| (b.0, b.1.get(), b.2.get());
    if [nb(rb[0]), nb(rb[1])] != exp || [nb(sb[0]), nb(sb[1])] != exp || !same {
        crate::viol!(rep, 
            "C07:encoding",
            format!(
                "message ({},{},{}) encodes to raw {:?} / structured {:?} (array conversion equal: {}), expected {:?}",
                c, n, v, [nb(rb[0]), nb(rb[1])], [nb(sb[0]), nb(sb[1])], same, exp
            ),
            rp.clone(),
        );
        return;
    }
    // "for both factory implementations as encoding target": the Structured encoding fed to a copy
    // of the never-fresh scanner must be decoded exactly like the Raw one
    {
        let mut sc = mon.real;
        let r = api("ControlChange14BitMessageScanner::feed", || {
            let st: [StructuredShortMessage; 2] = m.to_short_messages();
            (sc.feed(&st[0]), sc.feed(&st[1]))
        });
        // (the prior state may hold any MSB; the pair itself must be decoded)
        if !matches!(r, Some((None, Some(x))) if x == m) {
            crate::viol!(
                rep,
                "C07:scanner-does-not-invert-encoder:structured-encoding",
                format!("feeding the StructuredShortMessage encoding of ({},{},{}) returned {:?}", c, n, v, r.map(|(a, b)| (a.is_some(), b.map(|x| c14m(&x))))),
                rp.clone()
            );
        }
    }
    // feed the encoding into the never-fresh scanner, preceded by junk
    let junk = rng.below(3);
    for _ in 0..junk {
        let e = random_cc14_event(rng, 16, false);
        if hist.len() > 4096 {
            hist.clear();
            hist.push(Ev::Reset);
            mon.apply(&Ev::Reset, rep, &|| vec!["reset".into()]);
        }
        hist.push(e);
        let h: &Vec<Ev> = hist;
        mon.apply(&e, rep, &|| h.iter().map(|e| e.render()).collect());
    }
    let e1 = Ev::Msg(exp[0].0, exp[0].1, exp[0].2);
    let e2 = Ev::Msg(exp[1].0, exp[1].1, exp[1].2);
    hist.push(e1);
    let o1 = {
        let h: &Vec<Ev> = hist;
        mon.apply(&e1, rep, &|| h.iter().map(|e| e.render()).collect())
    };
    if v % 3 == 0 {
        // "whatever it has been fed before" and whenever: time passes between the two halves
        let step = Ev::Tick(crate::scan::TIME_SHIFTS[(v / 3) as usize % 8]);
        hist.push(step);
        mon.apply(&step, rep, &|| vec![]);
        rep.count("messages_with_a_pause_between_msb_and_lsb", 1);
    }
    hist.push(e2);
    let o2 = {
        let h: &Vec<Ev> = hist;
        mon.apply(&e2, rep, &|| h.iter().map(|e| e.render()).collect())
    };
    let want = c14m(&m);
    if (v % 5 == 0 || v & 127 == 0) && o1.is_none() && o2 == Some(want) {
        // "whatever it has been fed before" includes the very same message
        hist.push(e1);
        hist.push(e2);
        let h: &Vec<Ev> = hist;
        let p1 = mon.apply(&e1, rep, &|| h[..h.len() - 1].iter().map(|e| e.render()).collect());
        let p2 = mon.apply(&e2, rep, &|| h.iter().map(|e| e.render()).collect());
        rep.count("messages_fed_twice_in_a_row", 1);
        if p1.is_some() || p2 != Some(want) {
            crate::viol!(rep, 
                "C07:scanner-does-not-invert-encoder:repeated-message",
                format!("feeding the encoding of ({},{},{}) a second time returned {:?} then {:?}; expected None then {:?}", c, n, v, p1, p2, want),
                history_json("cc14", None, &|| h.iter().map(|e| e.render()).collect(), json!(format!("{:?}", want)), json!(format!("{:?} / {:?}", p1, p2))),
            );
        }
    }
    if o1.is_some() || o2 != Some(want) {
        let h: &Vec<Ev> = hist;
        crate::viol!(rep, 
            "C07:scanner-does-not-invert-encoder",
            format!(
                "feeding the encoding of ({},{},{}) after prior traffic returned {:?} then {:?}; expected None then {:?}",
                c, n, v, o1, o2, want
            ),
            history_json("cc14", None, &|| h.iter().map(|e| e.render()).collect(), json!(format!("{:?}", want)), json!(format!("{:?} / {:?}", o1, o2))),
        );
    }
}

pub fn run_c07(cfg: &Cfg, rep: &mut Report) {
    rep.rule("all 16x32x16384 ControlChange14BitMessage values: constructor, accessors, encoding to Raw and Structured, array conversion, then both short messages fed to a never-fresh scanner (carrying all earlier traffic plus seeded junk); constructor panic condition for all 128 controller numbers; every per-channel prior scanner state (none or any of 32x128 stored MSBs) x every controller number x boundary values; non-trivial = message with value > 127 (both bytes carry information) or a prior-state case; distinct by enumeration ; a subset of the messages is fed twice in a row; the same message is fed again after 66 000 further messages of one kind (note on, its own LSB, its own MSB, a non-contributing CC, another channel's MSB) on its channel");
    let vstride: usize = if cfg.as_c18 && !cfg.thorough { 97 } else { 1 };
    par(cfg, rep, |shard, nsh, rep| {
        let mut rng = Rng::derive(cfg.seed, 0xC07_00 + shard as u64);
        let mut mon = Cc14Mon::new();
        let mut hist: Vec<Ev> = Vec::new();
        let mut nontrivial = 0u64;
        for c in (shard..16).step_by(nsh) {
            for n in 0u8..32 {
                for v in (0u16..16384).step_by(vstride) {
                    crate::mon::set_case("cc14-message", [c as i64, n as i64, v as i64, 0, 0, 0]);
                    check_message(c as u8, n, v, &mut mon, &mut rng, &mut hist, rep);
                    if v > 127 {
                        nontrivial += 1;
                    }
                }
            }
        }
        rep.distinct_nontrivial += nontrivial;
    });
    // very long prior histories (the statement says "whatever it has been fed before"): the same
    // message again after 66 000 further messages of one kind on its channel
    if !cfg.as_c18 {
        let mut cases = 0u64;
        for (c, n, v) in [(9u8, 7u8, 0x2a55u16), (0, 0, 127), (15, 31, 16383)] {
            let fillers: [Ev; 6] = [
                Ev::cc(c, ((n + 1) % 32) + 32, 5), // an LSB that does not match the stored MSB
                Ev::Msg(0x90 | c, 60, 1),
                Ev::cc(c, n + 32, (v & 127) as u8),
                Ev::cc(c, n, (v >> 7) as u8),
                Ev::cc(c, 64 + n, 3),
                Ev::cc((c + 1) % 16, n, 1),
            ];
            for filler in fillers {
                let mut mon = Cc14Mon::new();
                let e1 = Ev::cc(c, n, (v >> 7) as u8);
                let e2 = Ev::cc(c, n + 32, (v & 127) as u8);
                let no_path = || vec!["(long history)".to_string()];
                mon.apply(&e1, rep, &no_path);
                mon.apply(&e2, rep, &no_path);
                for _ in 0..66_000u32 {
                    mon.apply(&filler, rep, &no_path);
                }
                let o1 = mon.apply(&e1, rep, &no_path);
                let o2 = mon.apply(&e2, rep, &no_path);
                cases += 1;
                let want = Some(C14M { ch: c, msb_cn: n, value: v });
                if o1.is_some() || o2 != want {
                    crate::viol!(rep, 
                        "C07:scanner-does-not-invert-encoder:long-prior-history",
                        format!("after {} , {} and 66000 x {}, feeding the encoding of ({},{},{}) returned {:?} then {:?}; expected None then {:?}", e1.render(), e2.render(), filler.render(), c, n, v, o1, o2, want),
                        json!({"kind":"history-compressed","scanner":"cc14","prefix":[e1.render(), e2.render()],"repeat":{"event":filler.render(),"times":66000},"then":[e1.render(), e2.render()]}),
                    );
                }
            }
        }
        rep.evaluations += cases * 66_004;
        rep.count("long_prior_history_cases", cases);
    }
    // wrap-crossing histories: N filler messages with N just below a power of two (message
    // positions / generation counters of 8, 16 or 32 bits), optionally a reset, then eight
    // encoded messages in a row which cross the wrap — each must be reported
    if !cfg.as_c18 {
        let mut ns: Vec<u64> = vec![(1 << 8) - 6, (1 << 16) - 6];
        if cfg.thorough && cfg.release {
            ns.push((1u64 << 32) - 6);
        }
        let mut jobs: Vec<(u64, u8, bool)> = Vec::new();
        for &n in &ns {
            for filler_kind in 0u8..3 {
                for with_reset in [false, true] {
                    jobs.push((n, filler_kind, with_reset));
                }
            }
        }
        let jobs_ref = &jobs;
        par(cfg, rep, |shard, nsh, rep| {
            for (ji, &(n, fk, with_reset)) in jobs_ref.iter().enumerate() {
                if ji % nsh != shard {
                    continue;
                }
                let c = 5u8;
                let filler = match fk {
                    0 => raw(0xF8, 0, 0),
                    1 => raw(0x90 | c, 60, 1),
                    _ => raw(0xB0 | c, 70, 1),
                };
                let mut sc = ControlChange14BitMessageScanner::new();
                let first = [raw(0xB0 | c, 7, 1), raw(0xB0 | c, 39, 2)];
                let ok = api("ControlChange14BitMessageScanner::feed (wrap-crossing history)", || {
                    let mut bad: Option<String> = None;
                    sc.feed(&first[0]);
                    if sc.feed(&first[1]).is_none() {
                        bad = Some("first pair not reported".into());
                    }
                    for _ in 0..n {
                        if sc.feed(&filler).is_some() && bad.is_none() {
                            bad = Some("filler reported".into());
                        }
                    }
                    if with_reset {
                        sc.reset();
                    }
                    for k in 0..8u16 {
                        let v = 1000 + k * 129;
                        let m = ControlChange14BitMessage::new(ch(c), cn((k % 32) as u8), u14(v));
                        let enc: [RawShortMessage; 2] = m.to_short_messages();
                        let o1 = sc.feed(&enc[0]);
                        let o2 = sc.feed(&enc[1]);
                        if (o1.is_some() || o2 != Some(m)) && bad.is_none() {
                            bad = Some(format!("pair #{} after the fillers returned {:?} / {:?}", k, o1.is_some(), o2.map(|x| x.value().get())));
                        }
                    }
                    bad.is_none()
                });
                rep.evaluations += n + 18;
                rep.count("wrap_crossing_histories", 1);
                rep.max("max_wrap_crossing_history_length", n + 18);
                if ok != Some(true) {
                    crate::viol!(
                        rep,
                        "C07:scanner-does-not-invert-encoder:wrap-crossing-history",
                        format!("after one reported pair and {} filler messages (kind {}){} eight encoded messages in a row were not all reported", n, fk, if with_reset { " and a reset" } else { "" }),
                        json!({"kind":"history-compressed","scanner":"cc14","fillers":n,"filler_kind":fk,"reset":with_reset})
                    );
                }
            }
        });
    }
    // constructor panic condition (not in the panic=abort build, where a panic ends the process)
    for n in (0u8..128).filter(|_| !cfg!(panic = "abort")) {
        for (c, v) in [(0u8, 0u16), (15, 16383), (7, 8192)] {
            let r = api_probe("ControlChange14BitMessage::new", || {
                ControlChange14BitMessage::new(ch(c), cn(n), u14(v))
            });
            rep.evaluations += 1;
            match (r.is_ok(), n < 32) {
                (true, true) => {}
                (false, false) => note_expected_panic("ControlChange14BitMessage::new"),
                (ok, _) => crate::viol!(rep, 
                    "C07:constructor-panic-condition",
                    format!(
                        "ControlChange14BitMessage::new(_, {}, _) {} (must panic exactly for controller numbers >= 32)",
                        n,
                        if ok { "did not panic" } else { "panicked" }
                    ),
                    json!({"kind":"cc14-new","msb_controller_number":n}),
                ),
            }
        }
    }
    // every per-channel prior state x every message (boundary values)
    let channels: Vec<u8> = if cfg.thorough && !cfg.as_c18 { (0..16).collect() } else { vec![0, 9, 15] };
    let pstride: usize = if cfg.as_c18 && !cfg.thorough { 11 } else { 1 };
    let values: [u16; 5] = [0, 127, 128, 8192 + 5, 16383];
    let channels_ref = &channels;
    par(cfg, rep, |shard, nsh, rep| {
        let mut cases = 0u64;
        for pcn in (shard..33).step_by(nsh) {
            for pv in (0u8..128).step_by(pstride) {
                if pcn == 32 && pv > 0 {
                    break;
                }
                for &c in channels_ref.iter() {
                    for n in 0u8..32 {
                        for &v in &values {
                            let mut sc = ControlChange14BitMessageScanner::new();
                            let mut evs: Vec<Ev> = vec![];
                            if pcn < 32 {
                                evs.push(Ev::cc(c, pcn as u8, pv));
                            }
                            // a stale LSB of the same controller in front must not matter either
                            evs.push(Ev::cc(c, n + 32, 99));
                            evs.push(Ev::cc(c, n, (v >> 7) as u8));
                            evs.push(Ev::cc(c, n + 32, (v & 127) as u8));
                            let mut outs: Vec<Option<C14M>> = Vec::with_capacity(4);
                            let mut ok = Some(());
                            for e in &evs {
                                if let Ev::Msg(s, a, b) = e {
                                    let m = raw(*s, *a, *b);
                                    match api("ControlChange14BitMessageScanner::feed", || sc.feed(&m)) {
                                        Some(o) => outs.push(o.as_ref().map(c14m)),
                                        None => ok = None,
                                    }
                                }
                            }
                            cases += 1;
                            let k = outs.len();
                            let want = Some(C14M { ch: c, msb_cn: n, value: v });
                            if ok.is_none() || k < 2 || outs[k - 2].is_some() || outs[k - 1] != want {
                                crate::viol!(rep, 
                                    "C07:scanner-does-not-invert-encoder:prior-state",
                                    format!("history {:?} produced {:?}; the last two must be None, {:?}", evs.iter().map(|e| e.render()).collect::<Vec<_>>(), outs, want),
                                    history_json("cc14", None, &|| evs.iter().map(|e| e.render()).collect(), json!(format!("{:?}", want)), json!(format!("{:?}", outs))),
                                );
                            }
                        }
                    }
                }
            }
        }
        rep.evaluations += cases;
        rep.distinct_nontrivial += cases;
        rep.count("prior_state_cases", cases);
    });
    rep.set_exhaustive(vstride == 1);
    rep.sample(json!({"message":{"channel":5,"msb_controller_number":2,"value":1057},"encoding":["B5 02 08","B5 22 21"],"scanner":"None, then Some(original) after arbitrary prior traffic"}));
    rep.sample(json!({"prior_state":"stored MSB (cn 7, value 100) on the same channel","message":{"channel":0,"msb_controller_number":3,"value":16383}}));
}

pub fn c08_alphabet(full: bool, channel: u8) -> Vec<Ev> {
    c08_alphabet_v(full, channel, &[0, 1, 127])
}

pub fn c08_alphabet_v(full: bool, channel: u8, abstract_values: &[u8]) -> Vec<Ev> {
    let mut a = Vec::new();
    let values: Vec<u8> = if full { (0..128).collect() } else { abstract_values.to_vec() };
    for n in 0u8..64 {
        for &v in &values {
            a.push(Ev::cc(channel, n, v));
        }
    }
    // every non-contributing controller number (64..=127) once
    for n in 64u8..=127 {
        a.push(Ev::cc(channel, n, 5));
    }
    // non-CC channel messages whose data bytes look like a contributing (controller, value) pair
    for &v in abstract_values.iter().take(3) {
        for cn in [1u8, 33] {
            for hi in [0x90u8, 0xA0, 0xE0] {
                a.push(Ev::Msg(hi | channel, cn, v));
            }
        }
    }
    a.push(Ev::Msg(0x90 | channel, 60, 100));
    a.push(Ev::Msg(0x80 | channel, 60, 0));
    a.push(Ev::Msg(0xE0 | channel, 1, 2));
    a.push(Ev::Msg(0xC0 | channel, 33, 0));
    a.push(Ev::Msg(0xF8, 0, 0));
    a.push(Ev::Msg(0xF0 | channel, 2, 34));
    // another channel's MSB/LSB (must not interfere)
    let other = (channel + 1) % 16;
    a.push(Ev::cc(other, 1, 9));
    a.push(Ev::cc(other, 33, 9));
    a.push(Ev::Reset);
    a
}

pub fn run_c08(cfg: &Cfg, rep: &mut Report) {
    rep.rule("fixpoint exploration of (real scanner x history oracle) on one channel: quick alphabet = all 64 contributing controller numbers x values {0,1,127} + non-contributing representatives + other-channel traffic + reset; thorough (release build) = the full alphabet 64x128; plus seeded random histories over the full short-message alphabet on 16 channels; a history is non-trivial when the scanner reported at least once; distinct_nontrivial counts explorer states plus random histories with a report (random histories are seeded independently; collisions are not deduplicated but astronomically unlikely at length >= 5) ; explorer runs rotate their abstract values and channels (fixed pair {0,1}, seeded pairs, spec-dictionary pairs such as {0,6}, {0,3}; thorough/release: every 7-bit value) ; repetition (pumping) workloads repeat every cycle of one or two symbols and every documented unit form 300x (unit forms and single symbols 66 000x) from several start states, applying all tail symbols to a copy after each iteration ; a third of the random histories draws number bytes, values and channels from the spec dictionary");
    let full = cfg.thorough && cfg.release && !cfg.as_c18;
    let pairs = crate::util::value_pairs(cfg, 0xC08, 3);
    let mut runs: Vec<(u8, Vec<u8>)> = if cfg.as_c18 { vec![(3u8, vec![0, 1, 127])] } else { vec![(0u8, vec![0, 1, 127]), (15u8, vec![0, 1, 127])] };
    if !cfg.as_c18 && !full {
        for (i, p) in pairs.iter().enumerate().skip(1) {
            runs.push((crate::util::rotating_channel(cfg, i), vec![p[0], p[1], p[0] ^ 0x40]));
        }
    }
    // auto-dictionary: values from integer literals that are new in the tree under test
    let extra = crate::util::extra_values7();
    if !extra.is_empty() && !cfg.as_c18 && !full {
        for c in crate::util::extra_channels() {
            runs.push((c, extra.clone()));
        }
    }
    for (channel, vals) in runs {
        let alpha = c08_alphabet_v(full, channel, &vals);
        let (st, _) = explore(cfg, Cc14Mon::new(), &alpha, if full { 200_000 } else { 20_000 }, rep, false);
        rep.states += st.states;
        rep.transitions += st.transitions;
        rep.evaluations += st.transitions;
        rep.distinct_nontrivial += st.states;
        rep.max("max_explorer_depth", st.depth);
        rep.count("explorer_alphabet_size", alpha.len() as u64);
        if !st.fixpoint {
            rep.inconclusive("C08 explorer did not reach a fixpoint within the state bound");
        }
        rep.notes.insert(
            format!("explorer_channel_{}_values_{:?}", channel, if full { vec![] } else { vals.clone() }),
            json!({"states":st.states,"transitions":st.transitions,"depth":st.depth,"fixpoint_reached":st.fixpoint,"alphabet":alpha.len(),"full_alphabet":full}),
        );
    }
    rep.set_exhaustive(false);
    // repetition workload (counters, generations, streak heuristics)
    {
        let c = crate::util::rotating_channel(cfg, 3);
        let (m, l, m2, l2) = (Ev::cc(c, 7, 5), Ev::cc(c, 39, 9), Ev::cc(c, 8, 6), Ev::cc(c, 40, 10));
        let note = Ev::Msg(0x90 | c, 60, 1);
        let syms = [m, l, m2, l2, note, Ev::Reset, Ev::cc((c + 1) % 16, 7, 5)];
        let starts = starts_from(&Cc14Mon::new(), &[vec![], vec![m], vec![m, l], vec![m2, l]], rep);
        let tail = [m, l, m2, l2];
        let k_all = cfg.size(20, 300, 66_000) as usize;
        if cfg.thorough && cfg.release && !cfg.as_c18 {
            pump(cfg, rep, &starts, &cycles_upto2(&syms, &[]), k_all, &tail, true);
        } else {
            pump(cfg, rep, &starts, &cycles_upto2(&syms, &[]), k_all.min(300), &tail, true);
            if !cfg.as_c18 {
                // long runs for the single-symbol cycles (16-bit counters)
                let singles: Vec<Vec<Ev>> = [note, m, l, Ev::Reset].iter().map(|e| vec![*e]).collect();
                pump(cfg, rep, &starts, &singles, 66_000, &tail, false);
                pump(cfg, rep, &starts[1..2], &[vec![Ev::Reset]], 66_000, &[l], true);
            }
        }
    }
    // seeded random histories, 16 channels, full alphabet
    let total = cfg.size(2_000, 12_000_000, 300_000_000);
    par(cfg, rep, |shard, nsh, rep| {
        let mut rng = Rng::derive(cfg.seed, 0xC08_00 + shard as u64);
        let per = total / nsh as u64;
        let mut done = 0u64;
        let mut with_report = 0u64;
        let mut hist_count = 0u64;
        while done < per {
            let len = rng.range(5, 120);
            let few = rng.chance(1, 2);
            let chans = *rng.pick(&[1u8, 2, 3, 16]);
            let mut mon = Cc14Mon::new();
            let mut hist: Vec<Ev> = Vec::with_capacity(len as usize);
            let mut reported = false;
            for _ in 0..len {
                let e = random_cc14_event(&mut rng, chans, few);
                hist.push(e);
                let h = &hist;
                if mon.apply(&e, rep, &|| h.iter().map(|e| e.render()).collect()).is_some() {
                    reported = true;
                }
            }
            done += len;
            hist_count += 1;
            if reported {
                with_report += 1;
            }
            if shard == 0 && hist_count == 3 {
                rep.sample(json!({"random_history": hist.iter().take(12).map(|e| e.render()).collect::<Vec<_>>(), "length": len}));
            }
        }
        rep.evaluations += done;
        rep.distinct_nontrivial += with_report;
        rep.count("random_histories", hist_count);
        rep.count("random_histories_with_report", with_report);
    });
    rep.sample(json!({"history":["B0 07 64","B0 27 01","B0 27 02"],"expected_reports":["-","(ch0, cn7, 12801)","(ch0, cn7, 12802) — repeated LSB re-reports with retained MSB"]}));
    rep.sample(json!({"history":["B0 07 64","B0 08 01","B0 27 02"],"expected_reports":["-","-","- (stale MSB replaced by newer MSB)"]}));
    if rep.counters.get("cc14_reports_observed").copied().unwrap_or(0) == 0 {
        rep.inconclusive("no report was ever observed");
    }
}
