//! C19 — deserialization enforces the same invariants as the constructors (serde build).
//! Generic self-describing input (serde_json::Value) -> serde_json::from_value::<T>; every
//! successfully deserialized value must be rebuildable through the checked public API.

use super::c02::acc_of;
use crate::mon::{api, api_probe, Observe};
use crate::report::Report;
use crate::scan::{pnm, PnM};
use crate::spec::*;
use crate::util::{Cfg, Rng};
use helgoboss_midi::*;
use serde_json::{json, Value};

thread_local! {
    /// second pass: the same inputs through a deserializer that reports
    /// `is_human_readable() == false`, as binary formats do
    static NOT_HUMAN_PASS: std::cell::Cell<bool> = std::cell::Cell::new(false);
}

fn not_human_pass() -> bool {
    NOT_HUMAN_PASS.with(|c| c.get())
}

fn from<T: serde::de::DeserializeOwned + Observe>(entry: &'static str, v: &Value) -> Result<Option<T>, String> {
    // Ok(None) = deserialization failed (fine); Ok(Some) = value; Err = panicked
    let v2 = v.clone();
    if not_human_pass() {
        // whatever the non-human-readable path accepts is judged like any other accepted value;
        // what it rejects is not held against it (a format-dependent representation is
        // legitimate), the human-readable result stands in
        let v3 = v.clone();
        return api_probe(entry, move || {
            let nh = T::deserialize(super::nothuman::NotHuman(v2)).ok();
            match nh {
                Some(y) => Some(y),
                None => serde_json::from_value::<T>(v3).ok(),
            }
        });
    }
    match api_probe(entry, move || serde_json::from_value::<T>(v2).ok()) {
        Ok(x) => Ok(x),
        Err(m) => Err(m),
    }
}

macro_rules! newtype_sweep {
    ($T:ty, $name:expr, $max:expr, $rep:expr) => {{
        let rep: &mut Report = $rep;
        for n in 0u32..=65535 {
            let r = from::<$T>("Deserialize for <restricted integer>", &json!(n));
            rep.evaluations += 1;
            match r {
                Err(m) => crate::viol!(rep, format!("C19:panic:{}", $name), format!("deserializing {} into {} panicked: {}", n, $name, m), json!({"kind":"serde","type":$name,"input":n})),
                Ok(Some(x)) => {
                    if n > $max || x.get() as u32 != n {
                        crate::viol!(rep, 
                            format!("C19:{}:out-of-range-accepted", $name),
                            format!("{} deserialized from {} as {:?} (max {})", $name, n, x, $max),
                            json!({"kind":"serde","type":$name,"input":n}),
                        );
                    }
                    rep.distinct_nontrivial += 1;
                }
                Ok(None) => {
                    if n <= $max {
                        crate::viol!(rep, 
                            format!("C19:{}:valid-rejected", $name),
                            format!("{} could not be deserialized from its natural representation {}", $name, n),
                            json!({"kind":"serde","type":$name,"input":n}),
                        );
                    }
                    rep.distinct_nontrivial += 1;
                }
            }
        }
        // non-u16 inputs: must fail or yield an in-range value
        let odd: Vec<Value> = vec![
            json!(-1), json!(-128), json!(65536), json!(4294967296u64), json!(u64::MAX), json!(i64::MIN), json!(1.0), json!(1.5), json!(1e30),
            json!("5"), json!(true), json!(null), json!([5]), json!({"0": 5}), json!([]), json!(""),
        ];
        for v in &odd {
            let r = from::<$T>("Deserialize for <restricted integer>", v);
            rep.evaluations += 1;
            match r {
                Err(m) => crate::viol!(rep, format!("C19:panic:{}", $name), format!("deserializing {} into {} panicked: {}", v, $name, m), json!({"kind":"serde","type":$name,"input":v})),
                Ok(Some(x)) if x.get() as u32 > $max => crate::viol!(rep, 
                    format!("C19:{}:out-of-range-accepted", $name),
                    format!("{} deserialized from {} as {:?}", $name, v, x),
                    json!({"kind":"serde","type":$name,"input":v}),
                ),
                _ => {}
            }
        }
        // round trip of every valid value
        for n in 0..=$max {
            let x = <$T>::new(n as _);
            let r = api("Serialize+Deserialize round trip", || {
                let j = serde_json::to_value(x).ok()?;
                let s = serde_json::to_string(&x).ok()?;
                let a = serde_json::from_value::<$T>(j).ok()?;
                let b = serde_json::from_str::<$T>(&s).ok()?;
                Some((a, b))
            });
            rep.evaluations += 1;
            if r != Some(Some((x, x))) {
                crate::viol!(rep, 
                    format!("C19:{}:round-trip", $name),
                    format!("{:?} does not survive serialize -> deserialize: {:?}", x, r),
                    json!({"kind":"serde-roundtrip","type":$name,"input":n}),
                );
            }
        }
    }};
}

/// Non-self-describing entry points: serde's primitive value deserializers call visit_u8,
/// visit_u16, visit_i8 ... directly (serde_json only ever calls visit_u64 / visit_i64 / visit_f64),
/// as compact binary formats do.
macro_rules! primitive_deserializers {
    ($T:ty, $name:expr, $max:expr, $rep:expr) => {{
        use serde::de::IntoDeserializer;
        use serde::Deserialize;
        type E = serde::de::value::Error;
        let rep: &mut Report = $rep;
        macro_rules! via {
            ($prim:ty, $vals:expr) => {
                for v in $vals {
                    let v: $prim = v;
                    let r = api_probe("Deserialize for <restricted integer> (primitive deserializer)", || {
                        let d: <$prim as IntoDeserializer<E>>::Deserializer = v.into_deserializer();
                        if not_human_pass() {
                            let d2: <$prim as IntoDeserializer<E>>::Deserializer = v.into_deserializer();
                            match <$T>::deserialize(super::nothuman::NotHuman(d2)).ok() {
                                Some(y) => Some(y),
                                None => <$T>::deserialize(d).ok(),
                            }
                        } else {
                            <$T>::deserialize(d).ok()
                        }
                    });
                    rep.evaluations += 1;
                    let in_range = (v as i128) >= 0 && (v as i128) <= $max as i128;
                    match r {
                        Err(m) => crate::viol!(rep, format!("C19:panic:{}", $name), format!("{}{} via {} deserializer panicked: {}", v, stringify!($prim), stringify!($prim), m), json!({"kind":"serde-primitive","type":$name,"input":format!("{}{}", v, stringify!($prim))})),
                        Ok(Some(x)) => {
                            if !in_range || x.get() as i128 != v as i128 {
                                crate::viol!(
                                    rep,
                                    format!("C19:{}:out-of-range-accepted:primitive-deserializer", $name),
                                    format!("{} deserialized from {}{} (visit_{}) as {:?} (max {})", $name, v, stringify!($prim), stringify!($prim), x, $max),
                                    json!({"kind":"serde-primitive","type":$name,"input":format!("{}{}", v, stringify!($prim))})
                                );
                            }
                        }
                        Ok(None) => {
                            // rejecting a valid value through a narrower integer visitor is allowed only
                            // if the natural representation (u16) is accepted, which the u16 sweep checks
                            if in_range && stringify!($prim) == "u16" {
                                crate::viol!(rep, format!("C19:{}:valid-rejected:primitive-deserializer", $name), format!("{} rejected {}u16", $name, v), json!({"kind":"serde-primitive","type":$name,"input":format!("{}u16", v)}));
                            }
                        }
                    }
                }
            };
        }
        via!(u8, 0u8..=255);
        via!(u16, 0u16..=65535);
        via!(i8, i8::MIN..=i8::MAX);
        via!(i16, [i16::MIN, -1, 0, 1, 15, 16, 127, 128, 255, 256, 16383, 16384, i16::MAX]);
        via!(u32, [0u32, 15, 16, 127, 128, 255, 256, 16383, 16384, 65535, 65536, 65536 + 5, u32::MAX]);
        via!(i32, [i32::MIN, -1, 0, 15, 16, 127, 128, 16383, 16384, 65536 + 5, i32::MAX]);
        via!(u64, [0u64, 15, 16, 127, 128, 16383, 16384, 65536 + 5, (1u64 << 32) + 5, u64::MAX]);
        via!(i64, [i64::MIN, -1, 0, 15, 16, 127, 128, 16383, 16384, (1i64 << 32) + 5, i64::MAX]);
        rep.count("primitive_deserializer_inputs", 256 + 65536 + 256 + 13 + 13 + 11 + 10 + 11);
    }};
}

const NUM_SUBST: [i64; 14] = [0, 1, 15, 16, 31, 32, 127, 128, 255, 256, 16383, 16384, 65536, -1];

/// all single-leaf mutations of a JSON value: numeric leaves get boundary values, booleans and
/// strings get values of the wrong type / unknown names, objects get an unknown or missing field
fn mutations(v: &Value) -> Vec<Value> {
    fn walk(root: &Value, cur: &Value, path: &mut Vec<String>, out: &mut Vec<Value>) {
        let subst = |root: &Value, path: &[String], new: Value| -> Value {
            fn set(v: &mut Value, path: &[String], new: Value) {
                if path.is_empty() {
                    *v = new;
                    return;
                }
                match v {
                    Value::Object(m) => set(m.get_mut(&path[0]).unwrap(), &path[1..], new),
                    Value::Array(a) => set(&mut a[path[0].parse::<usize>().unwrap()], &path[1..], new),
                    _ => {}
                }
            }
            let mut r = root.clone();
            set(&mut r, path, new);
            r
        };
        match cur {
            Value::Number(_) => {
                for n in NUM_SUBST {
                    out.push(subst(root, path, json!(n)));
                }
                out.push(subst(root, path, json!("1")));
                out.push(subst(root, path, json!(null)));
                out.push(subst(root, path, json!(1.5)));
            }
            Value::Bool(b) => {
                out.push(subst(root, path, json!(!b)));
                out.push(subst(root, path, json!(1)));
                out.push(subst(root, path, json!("true")));
            }
            Value::String(_) => {
                out.push(subst(root, path, json!("Bogus")));
                out.push(subst(root, path, json!(0)));
                out.push(subst(root, path, json!("")));
            }
            Value::Array(a) => {
                for (i, x) in a.iter().enumerate() {
                    path.push(i.to_string());
                    walk(root, x, path, out);
                    path.pop();
                }
                let mut shorter = a.clone();
                shorter.pop();
                out.push(subst(root, path, Value::Array(shorter)));
                let mut longer = a.clone();
                longer.push(json!(0));
                out.push(subst(root, path, Value::Array(longer)));
            }
            Value::Object(m) => {
                for (k, x) in m.iter() {
                    path.push(k.clone());
                    walk(root, x, path, out);
                    path.pop();
                    let mut missing = m.clone();
                    missing.remove(k);
                    out.push(subst(root, path, Value::Object(missing)));
                }
                let mut extra = m.clone();
                extra.insert("bogus_field".into(), json!(1));
                out.push(subst(root, path, Value::Object(extra)));
            }
            Value::Null => {}
        }
    }
    let mut out = vec![];
    walk(v, v, &mut vec![], &mut out);
    out
}

/// Sequence-shaped (positional) form of a natural representation: every struct-like object
/// becomes the array of its field values in serialization order (serde_json is built with
/// `preserve_order`); single-key objects whose value is an object or array are kept as enum
/// variant wrappers. This is what non-self-describing formats (bincode, postcard) transmit.
fn positional(v: &Value, top: bool) -> Value {
    match v {
        Value::Object(m) => {
            if m.len() == 1 && !top {
                // cannot tell a one-field struct from a variant wrapper without type info: keep
                return Value::Object(m.iter().map(|(k, x)| (k.clone(), positional(x, false))).collect());
            }
            if m.len() == 1 {
                let (k, x) = m.iter().next().unwrap();
                if x.is_object() || x.is_array() {
                    let mut o = serde_json::Map::new();
                    o.insert(k.clone(), positional_struct(x));
                    return Value::Object(o);
                }
            }
            positional_struct(v)
        }
        other => other.clone(),
    }
}

fn positional_struct(v: &Value) -> Value {
    match v {
        Value::Object(m) => Value::Array(m.values().map(|x| positional(x, true)).collect()),
        other => other.clone(),
    }
}

fn seq_round_trip<T>(name: &'static str, v: &T, rep: &mut Report)
where
    T: serde::Serialize + serde::de::DeserializeOwned + PartialEq + std::fmt::Debug + Observe + Clone,
{
    let nat = serde_json::to_value(v).expect("serialize");
    let pos = positional(&nat, true);
    if pos == nat {
        return;
    }
    rep.evaluations += 1;
    rep.count("sequence_shaped_round_trips", 1);
    match from::<T>("Deserialize from sequence-shaped input", &pos) {
        Ok(Some(back)) if &back == v => {}
        other => crate::viol!(rep, 
            format!("C19:{}:sequence-shaped-round-trip", name),
            format!("{:?} serializes (positionally) to {} which deserializes to {:?} ({:?})", v, pos, other.ok().flatten(), serde_json::from_value::<T>(pos.clone()).err().map(|e| e.to_string())),
            json!({"kind":"serde-roundtrip-seq","type":name,"input":pos}),
        ),
    }
}

/// an accepted short message must be rebuildable via from_bytes and all accessors must work
fn judge_short<M>(name: &'static str, input: &Value, m: M, rep: &mut Report)
where
    M: ShortMessage + ShortMessageFactory + PartialEq + std::fmt::Debug + Copy + Observe,
{
    let r = api_probe("accessors of a deserialized short message", || {
        let b = m.to_bytes();
        let back = M::from_bytes(b).ok();
        let acc = if b.0 >= 0x80 { Some(acc_of(&m)) } else { None };
        (b, back, acc)
    });
    let rp = json!({"kind":"serde","type":name,"input":input});
    match r {
        Err(msg) => crate::viol!(rep, 
            format!("C19:{}:accepted-value-panics", name),
            format!("{} deserialized from {} as {:?}; using it panics: {}", name, input, m, msg),
            rp,
        ),
        Ok((b, back, acc)) => {
            if b.0 < 0x80 || back != Some(m) || acc.is_none() {
                crate::viol!(rep, 
                    format!("C19:{}:invalid-accepted", name),
                    format!("{} deserialized from {} as {:?} (bytes {:?}), which from_bytes would not build", name, input, m, (b.0, b.1.get(), b.2.get())),
                    rp,
                );
            }
        }
    }
}

fn try_short<M>(name: &'static str, input: &Value, rep: &mut Report) -> bool
where
    M: ShortMessage + ShortMessageFactory + PartialEq + std::fmt::Debug + Copy + Observe + serde::de::DeserializeOwned,
{
    rep.evaluations += 1;
    match from::<M>("Deserialize for <short message>", input) {
        Err(m) => {
            crate::viol!(rep, format!("C19:panic:{}", name), format!("deserializing {} into {} panicked: {}", input, name, m), json!({"kind":"serde","type":name,"input":input}));
            false
        }
        Ok(Some(m)) => {
            // range observer ran inside api_probe; now the rebuild oracle
            judge_short(name, input, m, rep);
            true
        }
        Ok(None) => false,
    }
}

fn judge_cc14(input: &Value, m: ControlChange14BitMessage, rep: &mut Report) {
    let r = api_probe("accessors of a deserialized ControlChange14BitMessage", || {
        let rebuilt = ControlChange14BitMessage::new(m.channel(), m.msb_controller_number(), m.value());
        let lsb = m.lsb_controller_number();
        let enc: [RawShortMessage; 2] = m.to_short_messages();
        (rebuilt, lsb, enc)
    });
    let rp = json!({"kind":"serde","type":"ControlChange14BitMessage","input":input});
    match r {
        Err(msg) => crate::viol!(rep, 
            if m.msb_controller_number().get() >= 32 {
                "C19:ControlChange14BitMessage:msb_controller_number>=32-accepted".to_string()
            } else {
                "C19:ControlChange14BitMessage:accepted-value-panics".to_string()
            },
            format!("ControlChange14BitMessage deserialized from {} as {:?}; new()/lsb_controller_number()/to_short_messages() panic: {}", input, m, msg),
            rp,
        ),
        Ok((rebuilt, _, _)) => {
            if rebuilt != m {
                crate::viol!(rep, 
                    "C19:ControlChange14BitMessage:not-rebuildable",
                    format!("{:?} differs from the value rebuilt by new(): {:?}", m, rebuilt),
                    rp,
                );
            }
        }
    }
}

fn judge_pn(input: &Value, m: ParameterNumberMessage, rep: &mut Report) {
    let p: PnM = pnm(&m);
    let rp = json!({"kind":"serde","type":"ParameterNumberMessage","input":input});
    if p.is14 && p.dt != 0 {
        crate::viol!(rep, 
            "C19:ParameterNumberMessage:is_14_bit&&data_type!=DataEntry-accepted",
            format!("deserialized {:?} from {}: 14-bit implies data entry", m, input),
            rp.clone(),
        );
        return;
    }
    if !p.is14 && p.value > 127 {
        crate::viol!(rep, 
            "C19:ParameterNumberMessage:!is_14_bit&&value>127-accepted",
            format!("deserialized {:?} from {}: a 7-bit message cannot carry value {}", m, input, p.value),
            rp.clone(),
        );
        // also show the consequence: the encoder produces an out-of-range data byte
        let _ = api_probe("ParameterNumberMessage::to_short_messages", || {
            let a: [Option<RawShortMessage>; 4] = m.to_short_messages(DataEntryByteOrder::MsbFirst);
            a
        });
        return;
    }
    let r = api_probe("rebuild of a deserialized ParameterNumberMessage", || {
        let rebuilt = p.build();
        let a: [Option<RawShortMessage>; 4] = m.to_short_messages(DataEntryByteOrder::MsbFirst);
        let b: [Option<RawShortMessage>; 4] = m.to_short_messages(DataEntryByteOrder::LsbFirst);
        (rebuilt, a, b)
    });
    match r {
        Err(msg) => crate::viol!(rep, 
            "C19:ParameterNumberMessage:accepted-value-panics",
            format!("deserialized {:?} from {}; rebuilding/encoding panics: {}", m, input, msg),
            rp,
        ),
        Ok((rebuilt, _, _)) => {
            if rebuilt != m {
                crate::viol!(rep, 
                    "C19:ParameterNumberMessage:not-rebuildable",
                    format!("{:?} cannot be reproduced by the public constructors (closest: {:?})", m, rebuilt),
                    rp,
                );
            }
        }
    }
}

pub fn run(cfg: &Cfg, rep: &mut Report) {
    NOT_HUMAN_PASS.with(|c| c.set(false));
    run_pass(cfg, rep);
    // "any input" includes any format: the same workload through an adapter that reports
    // is_human_readable() == false to the Deserialize implementations, at every nesting level
    NOT_HUMAN_PASS.with(|c| c.set(true));
    let before = rep.evaluations;
    run_pass(cfg, rep);
    NOT_HUMAN_PASS.with(|c| c.set(false));
    rep.count("c19_inputs_through_a_non_human_readable_deserializer", rep.evaluations - before);
    rep.rule("the whole workload a second time through a deserializer adapter reporting is_human_readable() == false (as bincode/postcard do), wrapped around the same self-describing input at every nesting level; in that pass only accepted values are judged");
}

fn run_pass(cfg: &Cfg, rep: &mut Report) {
    rep.rule("serde_json::Value -> from_value::<T> for every public type: restricted integers <- every u16 plus negative / too wide / float / string / bool / null / array / object inputs; ShortMessageType <- every u8 and beyond; RawShortMessage <- every status byte x boundary data bytes and wrong arities; StructuredShortMessage, TimeCodeQuarterFrame, TimeCodeType, DataType, ControlChange14BitMessage, ParameterNumberMessage <- the natural representation of valid values with every single leaf replaced by boundary / wrong-type values, fields removed and added, plus boundary products of the composite fields; oracle: Err, or a value that passes the range observer and is rebuildable through the checked constructors (and whose accessors/encoders do not panic); round trip from_value(to_value(v)) == v over sweeps of valid values; non-trivial = an input whose acceptance is decided by an invariant (not by shape alone) ; sequence-shaped (positional) round trip of ControlChange14BitMessage and ParameterNumberMessage");
    let mut rng = Rng::derive(cfg.seed, 0xC19);
    newtype_sweep!(U4, "U4", 15u32, rep);
    newtype_sweep!(U7, "U7", 127u32, rep);
    newtype_sweep!(U14, "U14", 16383u32, rep);
    newtype_sweep!(Channel, "Channel", 15u32, rep);
    newtype_sweep!(KeyNumber, "KeyNumber", 127u32, rep);
    newtype_sweep!(ControllerNumber, "ControllerNumber", 127u32, rep);
    primitive_deserializers!(U4, "U4", 15u32, rep);
    primitive_deserializers!(U7, "U7", 127u32, rep);
    primitive_deserializers!(U14, "U14", 16383u32, rep);
    primitive_deserializers!(Channel, "Channel", 15u32, rep);
    primitive_deserializers!(KeyNumber, "KeyNumber", 127u32, rep);
    primitive_deserializers!(ControllerNumber, "ControllerNumber", 127u32, rep);

    // ShortMessageType (serde_repr)
    for n in (0i64..=300).chain([-1, 65535, 65536, 1 << 40]) {
        let r = from::<ShortMessageType>("Deserialize for ShortMessageType", &json!(n));
        rep.evaluations += 1;
        let exp = if (0..256).contains(&n) { TYPES.iter().find(|t| t.0 as i64 == n).map(|t| t.1) } else { None };
        match r {
            Err(m) => crate::viol!(rep, "C19:panic:ShortMessageType", format!("{}: {}", n, m), json!({"kind":"serde","type":"ShortMessageType","input":n})),
            Ok(got) => {
                if got != exp {
                    crate::viol!(rep, 
                        "C19:ShortMessageType:wrong-acceptance",
                        format!("ShortMessageType deserialized from {} as {:?}, expected {:?}", n, got, exp),
                        json!({"kind":"serde","type":"ShortMessageType","input":n}),
                    );
                }
            }
        }
    }
    for t in TYPES.iter() {
        let r = api("Serialize+Deserialize round trip", || {
            serde_json::to_value(t.1).ok().and_then(|j| serde_json::from_value::<ShortMessageType>(j).ok())
        });
        rep.evaluations += 1;
        if r != Some(Some(t.1)) {
            crate::viol!(rep, "C19:ShortMessageType:round-trip", format!("{} -> {:?}", t.2, r), json!({"kind":"serde-roundtrip","type":"ShortMessageType"}));
        }
    }

    // RawShortMessage <- [status, d1, d2]
    let bd: [i64; 8] = [0, 1, 64, 127, 128, 255, 256, -1];
    let mut accepted = 0u64;
    for s in (0i64..=256).chain([-1, 65535]) {
        for &a in &bd {
            for &b in &bd {
                let v = json!([s, a, b]);
                accepted += try_short::<RawShortMessage>("RawShortMessage", &v, rep) as u64;
                rep.distinct_nontrivial += 1;
            }
        }
    }
    for v in [json!([144]), json!([144, 1]), json!([144, 1, 2, 3]), json!({"0":144}), json!("x"), json!(null), json!([[144, 1, 2]]), json!([144.5, 1, 2])] {
        accepted += try_short::<RawShortMessage>("RawShortMessage", &v, rep) as u64;
    }
    rep.count("raw_short_messages_accepted", accepted);

    // StructuredShortMessage: natural representations of valid values, mutated leaf by leaf
    let mut seeds: Vec<StructuredShortMessage> = Vec::new();
    for (tb, _, _) in TYPES.iter() {
        for (c, a, b) in [(0u8, 0u8, 0u8), (15, 127, 127), (7, 64, 1), (3, 0x75, 5)] {
            let s = if *tb < 0xF0 { tb | c } else { *tb };
            let (cs, c1, c2) = canon(s, a, b);
            seeds.push(structured_of(cs, c1, c2));
        }
    }
    for (d1, _) in all_quarter_frames() {
        seeds.push(structured_of(0xF1, d1, 0));
    }
    let mut structured_inputs = 0u64;
    let mut structured_accepted = 0u64;
    for s in &seeds {
        let nat = serde_json::to_value(s).expect("serialize");
        // round trip
        let r = api("Serialize+Deserialize round trip", || serde_json::from_value::<StructuredShortMessage>(nat.clone()).ok());
        rep.evaluations += 1;
        if r != Some(Some(*s)) {
            crate::viol!(rep, 
                "C19:StructuredShortMessage:round-trip",
                format!("{:?} -> {} -> {:?}", s, nat, r),
                json!({"kind":"serde-roundtrip","type":"StructuredShortMessage","input":nat}),
            );
        }
        for m in mutations(&nat) {
            structured_inputs += 1;
            structured_accepted += try_short::<StructuredShortMessage>("StructuredShortMessage", &m, rep) as u64;
            rep.distinct_nontrivial += 1;
        }
    }
    for v in [json!("Bogus"), json!({"Bogus":{}}), json!({"NoteOn":{}}), json!({"NoteOn":[1,2,3]}), json!(5), json!(null), json!({"NoteOn":{"channel":1,"key_number":2,"velocity":3},"NoteOff":{"channel":1,"key_number":2,"velocity":3}})] {
        structured_inputs += 1;
        structured_accepted += try_short::<StructuredShortMessage>("StructuredShortMessage", &v, rep) as u64;
    }
    rep.count("structured_inputs", structured_inputs);
    rep.count("structured_inputs_accepted", structured_accepted);
    // full round-trip sweep of structured values (per-dimension)
    let mut rt = 0u64;
    for s in 0x80u16..=0xFF {
        for d1 in 0u8..128 {
            for d2 in [0u8, 1, 63, 127] {
                let (cs, c1, c2) = canon(s as u8, d1, d2);
                let v = structured_of(cs, c1, c2);
                let raw = RawShortMessage::from_bytes((s as u8, u7(d1), u7(d2))).unwrap();
                let r = api("Serialize+Deserialize round trip", || {
                    let a = serde_json::to_value(v).ok().and_then(|j| serde_json::from_value::<StructuredShortMessage>(j).ok());
                    let b = serde_json::to_value(raw).ok().and_then(|j| serde_json::from_value::<RawShortMessage>(j).ok());
                    (a, b)
                });
                rt += 1;
                if r != Some((Some(v), Some(raw))) {
                    crate::viol!(rep, 
                        "C19:short-message:round-trip",
                        format!("({:#04x},{},{}) -> {:?}", s, d1, d2, r),
                        json!({"kind":"serde-roundtrip","type":"short message","input":[s,d1,d2]}),
                    );
                }
            }
        }
    }
    rep.evaluations += rt;
    rep.count("short_message_round_trips", rt);

    // small enums
    for v in [json!("Fps24"), json!("Fps25"), json!("Fps30DropFrame"), json!("Fps30NonDrop"), json!("Fps31"), json!(0), json!(4), json!(null)] {
        let r = from::<TimeCodeType>("Deserialize for TimeCodeType", &v);
        rep.evaluations += 1;
        if r.is_err() {
            crate::viol!(rep, "C19:panic:TimeCodeType", format!("{}", v), json!({"kind":"serde","type":"TimeCodeType","input":v}));
        }
    }
    for v in [json!("DataEntry"), json!("DataIncrement"), json!("DataDecrement"), json!("Data"), json!(1), json!(null)] {
        let r = from::<DataType>("Deserialize for DataType", &v);
        rep.evaluations += 1;
        if r.is_err() {
            crate::viol!(rep, "C19:panic:DataType", format!("{}", v), json!({"kind":"serde","type":"DataType","input":v}));
        }
    }
    for (d1, f) in all_quarter_frames() {
        let nat = serde_json::to_value(f).expect("serialize");
        let r = api("Serialize+Deserialize round trip", || serde_json::from_value::<TimeCodeQuarterFrame>(nat.clone()).ok());
        rep.evaluations += 1;
        if r != Some(Some(f)) {
            crate::viol!(rep, "C19:TimeCodeQuarterFrame:round-trip", format!("{:?} -> {} -> {:?}", f, nat, r), json!({"kind":"serde-roundtrip","type":"TimeCodeQuarterFrame","input":d1}));
        }
        for m in mutations(&nat) {
            rep.evaluations += 1;
            match from::<TimeCodeQuarterFrame>("Deserialize for TimeCodeQuarterFrame", &m) {
                Err(msg) => crate::viol!(rep, "C19:panic:TimeCodeQuarterFrame", format!("{}: {}", m, msg), json!({"kind":"serde","type":"TimeCodeQuarterFrame","input":m})),
                Ok(Some(q)) => {
                    // rebuildable: the byte codec must reproduce it
                    let r = api_probe("TimeCodeQuarterFrame<->U7", || TimeCodeQuarterFrame::from(U7::from(q)));
                    if r.as_ref().ok() != Some(&q) {
                        crate::viol!(rep, 
                            "C19:TimeCodeQuarterFrame:invalid-accepted",
                            format!("deserialized {:?} from {}; byte codec gives {:?}", q, m, r),
                            json!({"kind":"serde","type":"TimeCodeQuarterFrame","input":m}),
                        );
                    }
                }
                Ok(None) => {}
            }
        }
    }

    // ControlChange14BitMessage
    let mut cc14_accepted = 0u64;
    for c in [0i64, 15, 16, 255, -1] {
        for n in 0i64..=129 {
            for v in [0i64, 127, 128, 16383, 16384, 65535, 65536] {
                let input = json!({"channel":c,"msb_controller_number":n,"value":v});
                rep.evaluations += 1;
                rep.distinct_nontrivial += 1;
                match from::<ControlChange14BitMessage>("Deserialize for ControlChange14BitMessage", &input) {
                    Err(m) => crate::viol!(rep, "C19:panic:ControlChange14BitMessage", format!("{}: {}", input, m), json!({"kind":"serde","type":"ControlChange14BitMessage","input":input})),
                    Ok(Some(m)) => {
                        cc14_accepted += 1;
                        judge_cc14(&input, m, rep);
                    }
                    Ok(None) => {
                        if (0..16).contains(&c) && (0..32).contains(&n) && (0..16384).contains(&v) {
                            crate::viol!(rep, 
                                "C19:ControlChange14BitMessage:valid-rejected",
                                format!("natural representation {} was rejected", input),
                                json!({"kind":"serde","type":"ControlChange14BitMessage","input":input}),
                            );
                        }
                    }
                }
            }
        }
    }
    for c in [0i64, 16] {
        for n in [0i64, 31, 32, 64, 95, 127] {
            for v in [0i64, 16383, 16384] {
                let full = json!({"channel":c,"msb_controller_number":n,"value":v});
                for key in ["channel", "msb_controller_number", "value"] {
                    for variant in 0..2 {
                        let mut m = full.as_object().unwrap().clone();
                        if variant == 0 {
                            m.remove(key);
                        } else {
                            m.insert(key.to_string(), Value::Null);
                        }
                        let input = Value::Object(m);
                        rep.evaluations += 1;
                        if let Ok(Some(x)) = from::<ControlChange14BitMessage>("Deserialize for ControlChange14BitMessage", &input) {
                            cc14_accepted += 1;
                            judge_cc14(&input, x, rep);
                        }
                    }
                }
            }
        }
    }
    rep.count("cc14_inputs_accepted", cc14_accepted);
    for c in 0u8..16 {
        for n in 0u8..32 {
            for v in [0u16, 1, 127, 128, 8191, 16383, rng.below(16384) as u16] {
                let m = ControlChange14BitMessage::new(ch(c), cn(n), u14(v));
                let r = api("Serialize+Deserialize round trip", || {
                    serde_json::to_value(m).ok().and_then(|j| serde_json::from_value::<ControlChange14BitMessage>(j).ok())
                });
                rep.evaluations += 1;
                if r != Some(Some(m)) {
                    crate::viol!(rep, "C19:ControlChange14BitMessage:round-trip", format!("{:?} -> {:?}", m, r), json!({"kind":"serde-roundtrip","type":"ControlChange14BitMessage"}));
                }
                seq_round_trip("ControlChange14BitMessage", &m, rep);
            }
        }
    }
    let nat = serde_json::to_value(ControlChange14BitMessage::new(ch(1), cn(2), u14(3))).unwrap();
    for m in mutations(&nat) {
        rep.evaluations += 1;
        if let Ok(Some(x)) = from::<ControlChange14BitMessage>("Deserialize for ControlChange14BitMessage", &m) {
            judge_cc14(&m, x, rep);
        }
    }

    // ParameterNumberMessage
    let mut pn_accepted = 0u64;
    for c in [0i64, 15, 16] {
        for n in [0i64, 16383, 16384] {
            for v in [0i64, 127, 128, 3000, 16383, 16384] {
                for reg in [false, true] {
                    for b14 in [false, true] {
                        for dt in ["DataEntry", "DataIncrement", "DataDecrement", "Bogus"] {
                            let input = json!({"channel":c,"number":n,"value":v,"is_registered":reg,"is_14_bit":b14,"data_type":dt});
                            rep.evaluations += 1;
                            rep.distinct_nontrivial += 1;
                            match from::<ParameterNumberMessage>("Deserialize for ParameterNumberMessage", &input) {
                                Err(m) => crate::viol!(rep, "C19:panic:ParameterNumberMessage", format!("{}: {}", input, m), json!({"kind":"serde","type":"ParameterNumberMessage","input":input})),
                                Ok(Some(m)) => {
                                    pn_accepted += 1;
                                    judge_pn(&input, m, rep);
                                }
                                Ok(None) => {
                                    let valid = c < 16 && n < 16384 && dt != "Bogus" && if b14 { dt == "DataEntry" && v < 16384 } else { v < 128 };
                                    if valid {
                                        crate::viol!(rep, 
                                            "C19:ParameterNumberMessage:valid-rejected",
                                            format!("natural representation {} was rejected", input),
                                            json!({"kind":"serde","type":"ParameterNumberMessage","input":input}),
                                        );
                                    }
                                }
                            }
                        }
                    }
                }
            }
        }
    }
    // the same product with one member absent or null (optional-field slips in mirror structs)
    for c in [0i64, 16] {
        for n in [5i64, 16384] {
            for v in [0i64, 127, 200, 16383, 16384] {
                for reg in [false, true] {
                    for b14 in [false, true] {
                        for dt in ["DataEntry", "DataIncrement", "DataDecrement"] {
                            let full = json!({"channel":c,"number":n,"value":v,"is_registered":reg,"is_14_bit":b14,"data_type":dt});
                            for key in ["channel", "number", "value", "is_registered", "is_14_bit", "data_type"] {
                                for variant in 0..2 {
                                    let mut m = full.as_object().unwrap().clone();
                                    if variant == 0 {
                                        m.remove(key);
                                    } else {
                                        m.insert(key.to_string(), Value::Null);
                                    }
                                    let input = Value::Object(m);
                                    rep.evaluations += 1;
                                    match from::<ParameterNumberMessage>("Deserialize for ParameterNumberMessage", &input) {
                                        Err(msg) => crate::viol!(rep, "C19:panic:ParameterNumberMessage", format!("{}: {}", input, msg), json!({"kind":"serde","type":"ParameterNumberMessage","input":input})),
                                        Ok(Some(x)) => {
                                            pn_accepted += 1;
                                            rep.count("pn_inputs_with_absent_or_null_member_accepted", 1);
                                            judge_pn(&input, x, rep);
                                        }
                                        Ok(None) => {}
                                    }
                                }
                            }
                        }
                    }
                }
            }
        }
    }
    rep.count("pn_inputs_accepted", pn_accepted);
    for (reg, kind, _) in super::pn::KINDS.iter().copied() {
        for c in [0u8, 15] {
            for n in [0u16, 129, 16383] {
                for v in [0u16, 1, 127, 128, 16383] {
                    if kind != 1 && v > 127 {
                        continue;
                    }
                    let m = super::pn::construct(reg, kind, c, n, v);
                    let natv = serde_json::to_value(m).unwrap();
                    let r = api("Serialize+Deserialize round trip", || serde_json::from_value::<ParameterNumberMessage>(natv.clone()).ok());
                    rep.evaluations += 1;
                    if r != Some(Some(m)) {
                        crate::viol!(rep, "C19:ParameterNumberMessage:round-trip", format!("{:?} -> {} -> {:?}", m, natv, r), json!({"kind":"serde-roundtrip","type":"ParameterNumberMessage"}));
                    }
                    seq_round_trip("ParameterNumberMessage", &m, rep);
                    for mu in mutations(&natv) {
                        rep.evaluations += 1;
                        if let Ok(Some(x)) = from::<ParameterNumberMessage>("Deserialize for ParameterNumberMessage", &mu) {
                            judge_pn(&mu, x, rep);
                        }
                    }
                }
            }
        }
    }
    rep.set_exhaustive(false);
    rep.assume("decided for self-describing input (serde_json::Value / JSON text, also behind an adapter that reports is_human_readable() == false); a binary format's own framing is not reproduced");
    rep.sample(json!({"type":"U7","input":128,"expected":"Err"}));
    rep.sample(json!({"type":"RawShortMessage","input":[2,3,4],"expected":"Err (status byte below 0x80)"}));
    rep.sample(json!({"type":"ControlChange14BitMessage","input":{"channel":0,"msb_controller_number":64,"value":0},"expected":"Err"}));
    rep.sample(json!({"type":"ParameterNumberMessage","input":{"channel":0,"number":1,"value":3000,"is_registered":false,"is_14_bit":false,"data_type":"DataEntry"},"expected":"Err"}));
}
