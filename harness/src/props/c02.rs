//! C02 — Classification and field accessors follow the MIDI 1.0 status table.
//! Exhaustive over all 2^21 valid triples x {Raw, Structured, Foreign}; all 256 type bytes.

use crate::carriers::*;
use crate::mon::{api, Observe};
use crate::report::Report;
use crate::spec::*;
use crate::util::{par, Cfg};
use helgoboss_midi::*;
use serde_json::json;

/// Results of every classifying / accessing trait method on one message.
#[derive(Copy, Clone, PartialEq, Eq, Debug)]
pub struct Acc {
    pub ty: ShortMessageType,
    pub sup: MessageSuperType,
    pub main: MessageMainCategory,
    pub channel: Option<Channel>,
    pub key_number: Option<KeyNumber>,
    pub velocity: Option<U7>,
    pub controller_number: Option<ControllerNumber>,
    pub control_value: Option<U7>,
    pub program_number: Option<U7>,
    pub pressure_amount: Option<U7>,
    pub pitch_bend_value: Option<U14>,
    pub is_note_on: bool,
    pub is_note_off: bool,
    pub is_note: bool,
    pub structured: StructuredShortMessage,
}

impl Observe for Acc {
    fn observe(&self) {
        self.channel.observe();
        self.key_number.observe();
        self.velocity.observe();
        self.controller_number.observe();
        self.control_value.observe();
        self.program_number.observe();
        self.pressure_amount.observe();
        self.pitch_bend_value.observe();
        self.structured.observe();
    }
    fn describe(&self) -> String {
        format!("{:?}", self)
    }
}

#[inline]
pub fn acc_of<M: ShortMessage>(m: &M) -> Acc {
    Acc {
        ty: m.r#type(),
        sup: m.super_type(),
        main: m.main_category(),
        channel: m.channel(),
        key_number: m.key_number(),
        velocity: m.velocity(),
        controller_number: m.controller_number(),
        control_value: m.control_value(),
        program_number: m.program_number(),
        pressure_amount: m.pressure_amount(),
        pitch_bend_value: m.pitch_bend_value(),
        is_note_on: m.is_note_on(),
        is_note_off: m.is_note_off(),
        is_note: m.is_note(),
        structured: m.to_structured(),
    }
}

/// The same vector obtained with method-call syntax on the CONCRETE type: an inherent method of
/// the same name would shadow the trait method here (and only here).
macro_rules! acc_concrete {
    ($m:expr) => {{
        let m = $m;
        Acc {
            ty: m.r#type(),
            sup: m.super_type(),
            main: m.main_category(),
            channel: m.channel(),
            key_number: m.key_number(),
            velocity: m.velocity(),
            controller_number: m.controller_number(),
            control_value: m.control_value(),
            program_number: m.program_number(),
            pressure_amount: m.pressure_amount(),
            pitch_bend_value: m.pitch_bend_value(),
            is_note_on: m.is_note_on(),
            is_note_off: m.is_note_off(),
            is_note: m.is_note(),
            structured: m.to_structured(),
        }
    }};
}

fn concrete_vs_trait(s: u8, d1: u8, d2: u8, rep: &mut Report) {
    let r = api("ShortMessage methods called on the concrete types", || {
        let raw = RawShortMessage::from_bytes((s, u7(d1), u7(d2))).ok()?;
        let st = StructuredShortMessage::from_bytes((s, u7(d1), u7(d2))).ok()?;
        let bytes_r = (raw.status_byte(), raw.data_byte_1(), raw.data_byte_2(), raw.to_bytes());
        let bytes_s = (st.status_byte(), st.data_byte_1(), st.data_byte_2(), st.to_bytes());
        Some((
            acc_concrete!(&raw) == acc_of(&raw) && bytes_r == (ShortMessage::status_byte(&raw), ShortMessage::data_byte_1(&raw), ShortMessage::data_byte_2(&raw), ShortMessage::to_bytes(&raw)),
            acc_concrete!(&st) == acc_of(&st) && bytes_s == (ShortMessage::status_byte(&st), ShortMessage::data_byte_1(&st), ShortMessage::data_byte_2(&st), ShortMessage::to_bytes(&st)),
        ))
    });
    if r != Some(Some((true, true))) {
        crate::viol!(
            rep,
            format!("C02:concrete-call-differs-from-trait-call:{}", type_name(s)),
            format!("({:#04x},{},{}): calling the ShortMessage methods with method syntax on RawShortMessage / StructuredShortMessage gives different results than through the trait (equal: {:?}) - an inherent method shadows a trait method", s, d1, d2, r),
            json!({"kind":"triple","carrier":"concrete","status":s,"d1":d1,"d2":d2})
        );
    }
}

/// Compares the accessor results with the table-derived expectation; returns the name of the
/// first disagreeing accessor.
pub fn compare(a: &Acc, s: u8, d1: u8, d2: u8) -> Option<(&'static str, String)> {
    let f = fields_of(s, d1, d2);
    if Some(a.ty) != type_of(s) {
        return Some(("type", format!("{:?} expected {}", a.ty, type_name(s))));
    }
    if !super_matches(f.sup, a.sup) {
        return Some(("super_type", format!("{:?} expected {:?}", a.sup, f.sup)));
    }
    let main_is_channel = a.main == MessageMainCategory::Channel;
    if main_is_channel != f.is_channel {
        return Some(("main_category", format!("{:?}", a.main)));
    }
    if a.channel.map(|c| c.get()) != f.channel {
        return Some(("channel", format!("{:?} expected {:?}", a.channel, f.channel)));
    }
    if a.key_number.map(|c| c.get()) != f.key_number {
        return Some(("key_number", format!("{:?} expected {:?}", a.key_number, f.key_number)));
    }
    if a.velocity.map(|c| c.get()) != f.velocity {
        return Some(("velocity", format!("{:?} expected {:?}", a.velocity, f.velocity)));
    }
    if a.controller_number.map(|c| c.get()) != f.controller_number {
        return Some((
            "controller_number",
            format!("{:?} expected {:?}", a.controller_number, f.controller_number),
        ));
    }
    if a.control_value.map(|c| c.get()) != f.control_value {
        return Some(("control_value", format!("{:?} expected {:?}", a.control_value, f.control_value)));
    }
    if a.program_number.map(|c| c.get()) != f.program_number {
        return Some(("program_number", format!("{:?} expected {:?}", a.program_number, f.program_number)));
    }
    if a.pressure_amount.map(|c| c.get()) != f.pressure_amount {
        return Some(("pressure_amount", format!("{:?} expected {:?}", a.pressure_amount, f.pressure_amount)));
    }
    if a.pitch_bend_value.map(|c| c.get()) != f.pitch_bend_value {
        return Some((
            "pitch_bend_value",
            format!("{:?} expected {:?}", a.pitch_bend_value, f.pitch_bend_value),
        ));
    }
    if a.is_note_on != f.is_note_on {
        return Some(("is_note_on", format!("{} expected {}", a.is_note_on, f.is_note_on)));
    }
    if a.is_note_off != f.is_note_off {
        return Some(("is_note_off", format!("{} expected {}", a.is_note_off, f.is_note_off)));
    }
    if a.is_note != f.is_note {
        return Some(("is_note", format!("{} expected {}", a.is_note, f.is_note)));
    }
    let (cs, c1, c2) = canon(s, d1, d2);
    let es = structured_of(cs, c1, c2);
    if a.structured != es {
        return Some(("to_structured", format!("{:?} expected {:?}", a.structured, es)));
    }
    None
}

fn check_carrier<F>(name: &'static str, s: u8, d1: u8, d2: u8, rep: &mut Report)
where
    F: ShortMessageFactory + Copy,
{
    let r = api("ShortMessage::{type,super_type,main_category,channel,accessors,is_note*,to_structured}", || {
        let m = F::from_bytes((s, u7(d1), u7(d2))).ok()?;
        Some(acc_of(&m))
    });
    let rp = json!({"kind":"triple","carrier":name,"status":s,"d1":d1,"d2":d2});
    match r {
        None => crate::viol!(rep, 
            format!("C02:panic:{}:{}", name, type_name(s)),
            format!("accessors of {} ({},{},{}) panicked", name, s, d1, d2),
            rp,
        ),
        Some(None) => crate::viol!(rep, 
            format!("C02:from_bytes-rejected:{}", name),
            format!("{}::from_bytes(({},{},{})) failed for a valid status byte", name, s, d1, d2),
            rp,
        ),
        Some(Some(a)) => {
            if let Some((which, detail)) = compare(&a, s, d1, d2) {
                let class = if which == "super_type" || which == "main_category" {
                    format!("{}:{}", type_name(s), if (s & 0xF0) == 0xB0 { format!("cc{}", d1) } else { String::new() })
                } else {
                    type_name(s).to_string()
                };
                crate::viol!(rep, 
                    format!("C02:{}:{}:{}", which, name, class),
                    format!("{} ({:#04x},{},{}).{}: {}", name, s, d1, d2, which, detail),
                    rp,
                );
            }
            // the type's own (fuzzy) super type and main category agree with the message's
            let ft = a.ty.super_type();
            if !fuzzy_matches(s, ft)
                || (ft.main_category() == MessageMainCategory::Channel) != (a.main == MessageMainCategory::Channel)
            {
                crate::viol!(rep, 
                    format!("C02:type-super_type:{}", type_name(s)),
                    format!(
                        "{:?}.super_type() = {:?} (main {:?}) but message main category is {:?}",
                        a.ty,
                        ft,
                        ft.main_category(),
                        a.main
                    ),
                    json!({"kind":"triple","carrier":name,"status":s,"d1":d1,"d2":d2}),
                );
            }
        }
    }
}

pub fn run(cfg: &Cfg, rep: &mut Report) {
    rep.rule("all 128x128x128 valid (status>=0x80,d1,d2) triples x {Raw, Structured, Foreign}: every classifying method and field accessor compared with a hand-written MIDI 1.0 status table; non-trivial = triple with a non-zero data byte; distinct by enumeration");
    let stride: usize = if cfg.as_c18 && !cfg.thorough { 5 } else if cfg.secondary && !cfg.thorough { 3 } else { 1 };
    par(cfg, rep, |shard, n, rep| {
        let mut evals = 0u64;
        let mut nontrivial = 0u64;
        for s in ((0x80 + shard)..256).step_by(n) {
            let s = s as u8;
            for d1 in 0u8..128 {
                for d2 in (0u8..128).step_by(stride) {
                    crate::mon::set_case("triple", [s as i64, d1 as i64, d2 as i64, 0, 0, 0]);
                    check_carrier::<RawShortMessage>("Raw", s, d1, d2, rep);
                    check_carrier::<StructuredShortMessage>("Structured", s, d1, d2, rep);
                    check_carrier::<Foreign>("Foreign", s, d1, d2, rep);
                    concrete_vs_trait(s, d1, d2, rep);
                    evals += 4;
                    if d1 != 0 || d2 != 0 {
                        nontrivial += 1;
                    }
                }
            }
        }
        rep.evaluations += evals;
        rep.distinct_nontrivial += nontrivial;
    });
    rep.set_exhaustive(stride == 1);
    // every u8 -> type; type-level super type table
    let mut n_types = 0;
    for b in 0u16..256 {
        let b = b as u8;
        let r = api("ShortMessageType::try_from(u8)", || ShortMessageType::try_from(b).ok());
        rep.evaluations += 1;
        let exp = TYPES.iter().find(|t| t.0 == b).map(|t| t.1);
        if r != Some(exp) {
            crate::viol!(rep, 
                "C02:type-byte",
                format!("ShortMessageType::try_from({}) = {:?}, expected {:?}", b, r, exp),
                json!({"kind":"type-byte","byte":b}),
            );
        }
        if let Some(Some(t)) = r {
            n_types += 1;
            let st = api("ShortMessageType::super_type", || t.super_type());
            if !matches!(st, Some(f) if fuzzy_matches(b, f)) {
                crate::viol!(rep, 
                    format!("C02:type-super_type:{}", type_name(b)),
                    format!("{:?}.super_type() = {:?}", t, st),
                    json!({"kind":"type-byte","byte":b}),
                );
            }
        }
    }
    rep.count("type_bytes_accepted", n_types);
    rep.sample(json!({"triple":[0xB3,120,0],"expected":{"type":"ControlChange","super_type":"ChannelMode","channel":3,"controller_number":120}}));
    rep.sample(json!({"triple":[0xB3,119,5],"expected":{"super_type":"ChannelVoice"}}));
    rep.sample(json!({"triple":[0x90,60,0],"expected":{"is_note_on":false,"is_note_off":true,"velocity":0}}));
    rep.sample(json!({"triple":[0xD1,77,3],"expected":{"pressure_amount":77}}));
    rep.sample(json!({"triple":[0xE0,1,2],"expected":{"pitch_bend_value":257}}));
}
