//! C03 — All ShortMessage implementations are observationally equivalent.
//! Differential monitor over all 2^21 valid triples: four carriers (Raw, Structured, a
//! byte-getter-only foreign implementor, one that overrides to_bytes), every ordered pair via
//! to_other / from_other / to_structured; all trait methods.

use super::c02::{acc_of, Acc};
use crate::carriers::*;
use crate::mon::{api, Observe};
use crate::report::Report;
use crate::spec::*;
use crate::util::{par, Cfg};
use helgoboss_midi::*;
use serde_json::json;

/// Everything observable through the trait: accessor vector + the bytes.
#[derive(Copy, Clone, PartialEq, Eq, Debug)]
pub struct Full {
    pub acc: Acc,
    pub bytes: (u8, U7, U7),
    pub getters: (u8, U7, U7),
}

impl Observe for Full {
    fn observe(&self) {
        self.acc.observe();
        self.bytes.observe();
        self.getters.observe();
    }
    fn describe(&self) -> String {
        format!("{:?}", self)
    }
}

#[inline]
fn full_of<M: ShortMessage>(m: &M) -> Full {
    Full {
        acc: acc_of(m),
        bytes: m.to_bytes(),
        getters: (m.status_byte(), m.data_byte_1(), m.data_byte_2()),
    }
}

/// the same observation, every method called through a `&&&M` receiver: today these calls
/// auto-dereference to `M`'s implementation; an implementation for references (`impl
/// ShortMessage for &T`) would be picked instead and is one more implementation that has to
/// agree
#[inline]
fn full_via_references<M: ShortMessage>(m: &M) -> Full {
    let r = &&m;
    Full {
        acc: Acc {
            ty: r.r#type(),
            sup: r.super_type(),
            main: r.main_category(),
            channel: r.channel(),
            key_number: r.key_number(),
            velocity: r.velocity(),
            controller_number: r.controller_number(),
            control_value: r.control_value(),
            program_number: r.program_number(),
            pressure_amount: r.pressure_amount(),
            pitch_bend_value: r.pitch_bend_value(),
            is_note_on: r.is_note_on(),
            is_note_off: r.is_note_off(),
            is_note: r.is_note(),
            structured: r.to_structured(),
        },
        bytes: r.to_bytes(),
        getters: (r.status_byte(), r.data_byte_1(), r.data_byte_2()),
    }
}

fn references<A>(an: &'static str, s: u8, d1: u8, d2: u8, rep: &mut Report)
where
    A: ShortMessage + ShortMessageFactory + Copy,
{
    let r = api("ShortMessage methods through reference receivers", || {
        let a = A::from_bytes((s, u7(d1), u7(d2))).ok()?;
        Some((full_of(&a), full_via_references(&a)))
    });
    match r {
        Some(Some((direct, via))) if direct == via => {}
        _ => crate::viol!(
            rep,
            format!("C03:reference-receiver-differs:{}:{}", an, type_name(s)),
            format!("({:#04x},{},{}) as {}: the trait methods called through a reference-to-reference receiver give {:?}", s, d1, d2, an, r.map(|x| x.map(|(d, v)| (d.getters, v.getters)))),
            json!({"kind":"triple","carrier":an,"status":s,"d1":d1,"d2":d2,"call":"methods called on &&&message"})
        ),
    }
}

fn nb(b: (u8, U7, U7)) -> (u8, u8, u8) {
    (b.0, b.1.get(), b.2.get())
}

/// reference observation vs. an observation made on carrier/conversion result `got`;
/// `canonical` = a Structured carrier is involved, so bytes are compared modulo canon().
fn same(reference: &Full, got: &Full, canonical: bool) -> Option<String> {
    if reference.acc != got.acc {
        return Some(format!("accessors differ: {:?} vs {:?}", reference.acc, got.acc));
    }
    let rb = nb(reference.bytes);
    let exp = if canonical { canon(rb.0, rb.1, rb.2) } else { rb };
    if nb(got.bytes) != exp || nb(got.getters) != exp {
        return Some(format!(
            "bytes differ: to_bytes {:?} getters {:?} expected {:?}",
            nb(got.bytes),
            nb(got.getters),
            exp
        ));
    }
    None
}

fn pair<A, B>(an: &'static str, bn: &'static str, a_struct: bool, b_struct: bool, s: u8, d1: u8, d2: u8, rep: &mut Report)
where
    A: ShortMessageFactory + Copy,
    B: ShortMessageFactory + Copy,
{
    let r = api("ShortMessage::to_other / ShortMessageFactory::from_other / to_structured", || {
        let a = A::from_bytes((s, u7(d1), u7(d2))).ok()?;
        let fa = full_of(&a);
        let b1: B = a.to_other();
        let b2: B = B::from_other(&a);
        let st = a.to_structured();
        Some((fa, full_of(&b1), full_of(&b2), full_of(&st)))
    });
    let rp = json!({"kind":"triple-pair","from":an,"to":bn,"status":s,"d1":d1,"d2":d2});
    match r {
        None => crate::viol!(rep, 
            format!("C03:panic:{}->{}:{}", an, bn, type_name(s)),
            format!("conversion {}->{} of ({},{},{}) panicked", an, bn, s, d1, d2),
            rp,
        ),
        Some(None) => crate::viol!(rep, 
            format!("C03:from_bytes-rejected:{}", an),
            format!("{}::from_bytes(({},{},{})) failed", an, s, d1, d2),
            rp,
        ),
        Some(Some((fa, fb1, fb2, fst))) => {
            let canonical = a_struct || b_struct;
            if let Some(d) = same(&fa, &fb1, canonical) {
                crate::viol!(rep, 
                    format!("C03:to_other:{}->{}:{}", an, bn, type_name(s)),
                    format!("({:#04x},{},{}) {}.to_other::<{}>(): {}", s, d1, d2, an, bn, d),
                    rp.clone(),
                );
            }
            if let Some(d) = same(&fa, &fb2, canonical) {
                crate::viol!(rep, 
                    format!("C03:from_other:{}->{}:{}", an, bn, type_name(s)),
                    format!("({:#04x},{},{}) {}::from_other(&{}): {}", s, d1, d2, bn, an, d),
                    rp.clone(),
                );
            }
            if let Some(d) = same(&fa, &fst, true) {
                crate::viol!(rep, 
                    format!("C03:to_structured:{}:{}", an, type_name(s)),
                    format!("({:#04x},{},{}) {}.to_structured(): {}", s, d1, d2, an, d),
                    rp,
                );
            }
        }
    }
}

fn base<A, R>(an: &'static str, a_struct: bool, s: u8, d1: u8, d2: u8, rep: &mut Report)
where
    A: ShortMessageFactory + Copy,
    R: ShortMessageFactory + Copy,
{
    // carrier A built from the bytes vs. the RawShortMessage built from the same bytes
    let r = api("ShortMessage::* (all trait methods)", || {
        let a = A::from_bytes((s, u7(d1), u7(d2))).ok()?;
        let r = R::from_bytes((s, u7(d1), u7(d2))).ok()?;
        Some((full_of(&r), full_of(&a)))
    });
    let rp = json!({"kind":"triple","carrier":an,"status":s,"d1":d1,"d2":d2});
    match r {
        None => crate::viol!(rep, 
            format!("C03:panic:{}:{}", an, type_name(s)),
            format!("trait methods on {} ({},{},{}) panicked", an, s, d1, d2),
            rp,
        ),
        Some(None) => crate::viol!(rep, 
            format!("C03:from_bytes-rejected:{}", an),
            format!("from_bytes(({},{},{})) failed", s, d1, d2),
            rp,
        ),
        Some(Some((fr, fa))) => {
            if let Some(d) = same(&fr, &fa, a_struct) {
                crate::viol!(rep, 
                    format!("C03:carrier-vs-raw:{}:{}", an, type_name(s)),
                    format!("({:#04x},{},{}) {} vs Raw: {}", s, d1, d2, an, d),
                    rp,
                );
            }
        }
    }
}

pub fn run(cfg: &Cfg, rep: &mut Report) {
    rep.rule("all 2^21 valid triples: accessor/byte vectors of Raw, Structured, Foreign (getters only) and ForeignBytes (overrides to_bytes) compared pairwise, and across to_other/from_other/to_structured for all 16 ordered carrier pairs; only tolerated difference: Structured reports information-free data bytes as zero; non-trivial = triple with a non-zero data byte ; every method is also called through a reference-to-reference receiver (an implementation for &T would be picked there) and compared with the direct call");
    let stride: usize = if cfg.as_c18 && !cfg.thorough { 7 } else if cfg.secondary && !cfg.thorough { 3 } else { 1 };
    par(cfg, rep, |shard, n, rep| {
        let mut evals = 0u64;
        let mut nontrivial = 0u64;
        for s in ((0x80 + shard)..256).step_by(n) {
            let s = s as u8;
            for d1 in 0u8..128 {
                for d2 in (0u8..128).step_by(stride) {
                    crate::mon::set_case("triple", [s as i64, d1 as i64, d2 as i64, 0, 0, 0]);
                    base::<StructuredShortMessage, RawShortMessage>("Structured", true, s, d1, d2, rep);
                    base::<Foreign, RawShortMessage>("Foreign", false, s, d1, d2, rep);
                    base::<ForeignBytes, RawShortMessage>("ForeignBytes", false, s, d1, d2, rep);
                    macro_rules! pairs {
                        ($(($a:ty, $an:expr, $as:expr)),*) => {
                            $(
                                pair::<$a, RawShortMessage>($an, "Raw", $as, false, s, d1, d2, rep);
                                pair::<$a, StructuredShortMessage>($an, "Structured", $as, true, s, d1, d2, rep);
                                pair::<$a, Foreign>($an, "Foreign", $as, false, s, d1, d2, rep);
                                pair::<$a, ForeignBytes>($an, "ForeignBytes", $as, false, s, d1, d2, rep);
                            )*
                        };
                    }
                    pairs!(
                        (RawShortMessage, "Raw", false),
                        (StructuredShortMessage, "Structured", true),
                        (Foreign, "Foreign", false),
                        (ForeignBytes, "ForeignBytes", false)
                    );
                    references::<RawShortMessage>("Raw", s, d1, d2, rep);
                    references::<StructuredShortMessage>("Structured", s, d1, d2, rep);
                    references::<Foreign>("Foreign", s, d1, d2, rep);
                    evals += 3 + 16 * 3 + 3;
                    if d1 != 0 || d2 != 0 {
                        nontrivial += 1;
                    }
                }
            }
        }
        rep.evaluations += evals;
        rep.distinct_nontrivial += nontrivial;
    });
    rep.set_exhaustive(stride == 1);
    rep.count("carriers", 0);
    rep.counters.insert("carriers".into(), 4);
    rep.counters.insert("ordered_pairs".into(), 16);
    rep.counters.insert("trait_methods_compared".into(), 19);
    rep.sample(json!({"triple":[0xC2,9,55],"pair":"Foreign->Structured","expected":"all 15 accessors equal; bytes (0xC2,9,0) on the Structured side"}));
    rep.sample(json!({"triple":[0x95,64,0],"pair":"Structured->ForeignBytes","expected":"is_note_off true on both; bytes equal"}));
}

/// thinned slice for the Miri side run (supporting evidence only)
pub fn miri_slice(rep: &mut Report) {
    for s in 0x80u16..=0xFF {
        for (d1, d2) in [(0u8, 0u8), (0x7F, 1), (0x75, 127)] {
            let s = s as u8;
            base::<StructuredShortMessage, RawShortMessage>("Structured", true, s, d1, d2, rep);
            base::<ForeignBytes, RawShortMessage>("ForeignBytes", false, s, d1, d2, rep);
            pair::<RawShortMessage, StructuredShortMessage>("Raw", "Structured", false, true, s, d1, d2, rep);
            pair::<StructuredShortMessage, Foreign>("Structured", "Foreign", true, false, s, d1, d2, rep);
            pair::<Foreign, ForeignBytes>("Foreign", "ForeignBytes", false, false, s, d1, d2, rep);
            pair::<ForeignBytes, RawShortMessage>("ForeignBytes", "Raw", false, false, s, d1, d2, rep);
            rep.evaluations += 6;
        }
    }
}
