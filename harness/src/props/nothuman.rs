//! A deserializer adapter that reports `is_human_readable() == false` (what bincode, postcard
//! and other binary formats report) and forwards everything else to an inner self-describing
//! deserializer. The flag has to survive into nested values, so visitors, seeds and the
//! sequence / map / enum accessors are wrapped as well.

use serde::de::{self, DeserializeSeed, Deserializer, EnumAccess, MapAccess, SeqAccess, VariantAccess, Visitor};
use std::fmt;

pub struct NotHuman<D>(pub D);

macro_rules! forward {
    ($($m:ident),*) => {
        $(fn $m<V: Visitor<'de>>(self, v: V) -> Result<V::Value, Self::Error> {
            self.0.$m(Wrap(v))
        })*
    };
}

impl<'de, D: Deserializer<'de>> Deserializer<'de> for NotHuman<D> {
    type Error = D::Error;
    fn is_human_readable(&self) -> bool {
        false
    }
    forward!(
        deserialize_any, deserialize_bool, deserialize_i8, deserialize_i16, deserialize_i32, deserialize_i64, deserialize_i128,
        deserialize_u8, deserialize_u16, deserialize_u32, deserialize_u64, deserialize_u128, deserialize_f32, deserialize_f64,
        deserialize_char, deserialize_str, deserialize_string, deserialize_bytes, deserialize_byte_buf, deserialize_option,
        deserialize_unit, deserialize_seq, deserialize_map, deserialize_identifier, deserialize_ignored_any
    );
    fn deserialize_unit_struct<V: Visitor<'de>>(self, name: &'static str, v: V) -> Result<V::Value, Self::Error> {
        self.0.deserialize_unit_struct(name, Wrap(v))
    }
    fn deserialize_newtype_struct<V: Visitor<'de>>(self, name: &'static str, v: V) -> Result<V::Value, Self::Error> {
        self.0.deserialize_newtype_struct(name, Wrap(v))
    }
    fn deserialize_tuple<V: Visitor<'de>>(self, len: usize, v: V) -> Result<V::Value, Self::Error> {
        self.0.deserialize_tuple(len, Wrap(v))
    }
    fn deserialize_tuple_struct<V: Visitor<'de>>(self, name: &'static str, len: usize, v: V) -> Result<V::Value, Self::Error> {
        self.0.deserialize_tuple_struct(name, len, Wrap(v))
    }
    fn deserialize_struct<V: Visitor<'de>>(self, name: &'static str, fields: &'static [&'static str], v: V) -> Result<V::Value, Self::Error> {
        self.0.deserialize_struct(name, fields, Wrap(v))
    }
    fn deserialize_enum<V: Visitor<'de>>(self, name: &'static str, variants: &'static [&'static str], v: V) -> Result<V::Value, Self::Error> {
        self.0.deserialize_enum(name, variants, Wrap(v))
    }
}

/// wraps visitors, seeds and accessors
struct Wrap<T>(T);

macro_rules! forward_visit {
    ($($m:ident: $t:ty),*) => {
        $(fn $m<E: de::Error>(self, x: $t) -> Result<Self::Value, E> {
            self.0.$m(x)
        })*
    };
}

impl<'de, V: Visitor<'de>> Visitor<'de> for Wrap<V> {
    type Value = V::Value;
    fn expecting(&self, f: &mut fmt::Formatter) -> fmt::Result {
        self.0.expecting(f)
    }
    forward_visit!(
        visit_bool: bool, visit_i8: i8, visit_i16: i16, visit_i32: i32, visit_i64: i64, visit_i128: i128,
        visit_u8: u8, visit_u16: u16, visit_u32: u32, visit_u64: u64, visit_u128: u128, visit_f32: f32, visit_f64: f64,
        visit_char: char, visit_str: &str, visit_borrowed_str: &'de str, visit_string: String,
        visit_bytes: &[u8], visit_borrowed_bytes: &'de [u8], visit_byte_buf: Vec<u8>
    );
    fn visit_none<E: de::Error>(self) -> Result<Self::Value, E> {
        self.0.visit_none()
    }
    fn visit_unit<E: de::Error>(self) -> Result<Self::Value, E> {
        self.0.visit_unit()
    }
    fn visit_some<D: Deserializer<'de>>(self, d: D) -> Result<Self::Value, D::Error> {
        self.0.visit_some(NotHuman(d))
    }
    fn visit_newtype_struct<D: Deserializer<'de>>(self, d: D) -> Result<Self::Value, D::Error> {
        self.0.visit_newtype_struct(NotHuman(d))
    }
    fn visit_seq<A: SeqAccess<'de>>(self, a: A) -> Result<Self::Value, A::Error> {
        self.0.visit_seq(Wrap(a))
    }
    fn visit_map<A: MapAccess<'de>>(self, a: A) -> Result<Self::Value, A::Error> {
        self.0.visit_map(Wrap(a))
    }
    fn visit_enum<A: EnumAccess<'de>>(self, a: A) -> Result<Self::Value, A::Error> {
        self.0.visit_enum(Wrap(a))
    }
}

impl<'de, S: DeserializeSeed<'de>> DeserializeSeed<'de> for Wrap<S> {
    type Value = S::Value;
    fn deserialize<D: Deserializer<'de>>(self, d: D) -> Result<Self::Value, D::Error> {
        self.0.deserialize(NotHuman(d))
    }
}

impl<'de, A: SeqAccess<'de>> SeqAccess<'de> for Wrap<A> {
    type Error = A::Error;
    fn next_element_seed<T: DeserializeSeed<'de>>(&mut self, seed: T) -> Result<Option<T::Value>, Self::Error> {
        self.0.next_element_seed(Wrap(seed))
    }
    fn size_hint(&self) -> Option<usize> {
        self.0.size_hint()
    }
}

impl<'de, A: MapAccess<'de>> MapAccess<'de> for Wrap<A> {
    type Error = A::Error;
    fn next_key_seed<K: DeserializeSeed<'de>>(&mut self, seed: K) -> Result<Option<K::Value>, Self::Error> {
        self.0.next_key_seed(Wrap(seed))
    }
    fn next_value_seed<V: DeserializeSeed<'de>>(&mut self, seed: V) -> Result<V::Value, Self::Error> {
        self.0.next_value_seed(Wrap(seed))
    }
    fn size_hint(&self) -> Option<usize> {
        self.0.size_hint()
    }
}

impl<'de, A: EnumAccess<'de>> EnumAccess<'de> for Wrap<A> {
    type Error = A::Error;
    type Variant = Wrap<A::Variant>;
    fn variant_seed<V: DeserializeSeed<'de>>(self, seed: V) -> Result<(V::Value, Self::Variant), Self::Error> {
        self.0.variant_seed(Wrap(seed)).map(|(v, var)| (v, Wrap(var)))
    }
}

impl<'de, A: VariantAccess<'de>> VariantAccess<'de> for Wrap<A> {
    type Error = A::Error;
    fn unit_variant(self) -> Result<(), Self::Error> {
        self.0.unit_variant()
    }
    fn newtype_variant_seed<T: DeserializeSeed<'de>>(self, seed: T) -> Result<T::Value, Self::Error> {
        self.0.newtype_variant_seed(Wrap(seed))
    }
    fn tuple_variant<V: Visitor<'de>>(self, len: usize, v: V) -> Result<V::Value, Self::Error> {
        self.0.tuple_variant(len, Wrap(v))
    }
    fn struct_variant<V: Visitor<'de>>(self, fields: &'static [&'static str], v: V) -> Result<V::Value, Self::Error> {
        self.0.struct_variant(fields, Wrap(v))
    }
}
