pub mod c01;
pub mod c02;
pub mod c03;
pub mod c06;
pub mod c18;
pub mod cc14;
pub mod numeric;
pub mod pn;
pub mod twins;
#[cfg(feature = "serde")]
pub mod nothuman;
#[cfg(feature = "serde")]
pub mod serde19;
#[cfg(feature = "std")]
pub mod polling;

use crate::report::Report;
use crate::util::Cfg;

pub fn run_prop(id: &str, cfg: &Cfg, rep: &mut Report) -> bool {
    match id {
        "C01" => c01::run(cfg, rep),
        "C02" => c02::run(cfg, rep),
        "C03" => c03::run(cfg, rep),
        "C04" => numeric::run(numeric::Mode::C04, cfg, rep),
        "C05" => numeric::run(numeric::Mode::C05, cfg, rep),
        "C06" => c06::run(cfg, rep),
        "C07" => cc14::run_c07(cfg, rep),
        "C08" => cc14::run_c08(cfg, rep),
        "C09" => pn::run_c09(cfg, rep),
        "C10" => pn::run_c10(cfg, rep),
        "C11" => pn::run_c11(cfg, rep),
        #[cfg(feature = "std")]
        "C12" => polling::run_c12(cfg, rep),
        #[cfg(feature = "std")]
        "C13" => polling::run_c13(cfg, rep),
        #[cfg(feature = "std")]
        "C14" => polling::run_c14(cfg, rep),
        "C15" => twins::run_c15(cfg, rep),
        "C16" => twins::run_c16(cfg, rep),
        "C17" => twins::run_c17(cfg, rep),
        "C18" => c18::run(cfg, rep),
        #[cfg(feature = "serde")]
        "C19" => serde19::run(cfg, rep),
        _ => return false,
    }
    true
}
