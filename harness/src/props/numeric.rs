//! C04 / C05 — restricted integer types: range safety and numeric faithfulness.
//! One shared driver (conversions in/out, constructors, parsing, formatting, ordering,
//! constants), two deciding oracles:
//!   C04: no value out of range; checked constructor panics / fallible conversions & parsing fail
//!        exactly for out-of-range input (both feature configurations),
//!   C05: conversions accept exactly the in-range mathematical values and preserve them, parsing
//!        accepts exactly the unsigned decimal numerals in range, Display/Ord/Eq/MIN/MAX/Default
//!        agree with the numeric value.

use crate::mon::{api, api_probe, note_expected_panic, Observe};
use crate::report::Report;
use crate::util::{Cfg, Rng, StackBuf};
use helgoboss_midi::*;
use serde_json::json;
use std::fmt::Write as _;

#[derive(Copy, Clone, PartialEq, Eq)]
pub enum Mode {
    C04,
    C05,
}

impl Mode {
    fn id(self) -> &'static str {
        match self {
            Mode::C04 => "C04",
            Mode::C05 => "C05",
        }
    }
}

/// Harness-side view of a restricted integer type.
pub trait NT:
    Copy + Eq + Ord + std::fmt::Debug + std::fmt::Display + Default + std::str::FromStr + Observe + 'static
{
    const NAME: &'static str;
    const MAXV: u32;
    fn val(&self) -> u32;
    fn make(v: u32) -> Self;
    fn min_c() -> Self;
    fn max_c() -> Self;
    /// T::new on a raw repr value (may panic)
    fn new_raw(v: u32) -> Self;
    const REPR_MAX: u32;
}

macro_rules! nt {
    ($t:ident, $repr:ty, $max:expr) => {
        impl NT for $t {
            const NAME: &'static str = stringify!($t);
            const MAXV: u32 = $max;
            const REPR_MAX: u32 = <$repr>::MAX as u32;
            fn val(&self) -> u32 {
                self.get() as u32
            }
            fn make(v: u32) -> Self {
                <$t>::new(v as $repr)
            }
            fn min_c() -> Self {
                <$t>::MIN
            }
            fn max_c() -> Self {
                <$t>::MAX
            }
            fn new_raw(v: u32) -> Self {
                <$t>::new(v as $repr)
            }
        }
    };
}
nt!(U4, u8, 15);
nt!(U7, u8, 127);
nt!(U14, u16, 16383);
nt!(Channel, u8, 15);
nt!(KeyNumber, u8, 127);
nt!(ControllerNumber, u8, 127);

/// A conversion source/target: primitive integers and the newtypes themselves.
pub trait Prim: Copy + std::fmt::Debug + 'static {
    const PNAME: &'static str;
    /// Some(v) if the mathematical value is within 0..=65535
    fn small(self) -> Option<u32>;
    fn describe(self) -> String {
        format!("{:?}", self)
    }
    fn candidates(rng: &mut Rng, n_random: usize) -> Vec<Self>;
    const EXHAUSTIVE: bool;
}

macro_rules! prim_small {
    ($($p:ty),*) => { $(
        impl Prim for $p {
            const PNAME: &'static str = stringify!($p);
            const EXHAUSTIVE: bool = true;
            fn small(self) -> Option<u32> { if (self as i64) >= 0 && (self as i64) <= 65535 { Some(self as i64 as u32) } else { None } }
            fn candidates(_rng: &mut Rng, _n: usize) -> Vec<Self> { (<$p>::MIN..=<$p>::MAX).collect() }
        }
    )* };
}
prim_small!(u8, i8, u16, i16);

macro_rules! prim_wide {
    ($($p:ty : $signed:expr),*) => { $(
        impl Prim for $p {
            const PNAME: &'static str = stringify!($p);
            const EXHAUSTIVE: bool = false;
            #[allow(unused_comparisons)]
            fn small(self) -> Option<u32> { if self >= 0 && self <= 65535 as $p { Some(self as u32) } else { None } }
            fn candidates(rng: &mut Rng, n_random: usize) -> Vec<Self> {
                let mut v: Vec<$p> = vec![<$p>::MIN, <$p>::MAX, 0, 1];
                let bits = <$p>::BITS;
                for k in 0..bits {
                    let p2: $p = (1 as $p).wrapping_shl(k);
                    for d in [-1i32, 0, 1] {
                        let x = if d < 0 { p2.wrapping_sub(1) } else if d > 0 { p2.wrapping_add(1) } else { p2 };
                        v.push(x);
                        if $signed { v.push((0 as $p).wrapping_sub(x)); }
                    }
                }
                for b in [15u32, 16, 17, 127, 128, 129, 255, 256, 257, 16383, 16384, 16385, 32767, 32768, 65535, 65536, 65537] {
                    let x = b as $p;
                    v.push(x);
                    if $signed { v.push((0 as $p).wrapping_sub(x)); }
                    // values congruent to an in-range value modulo 2^8 / 2^16 / 2^32 (truncation traps)
                    for sh in [8u32, 16, 32, 63] {
                        if sh < bits { v.push(x.wrapping_add((1 as $p).wrapping_shl(sh))); }
                    }
                }
                for i in 0..n_random {
                    let r = rng.next();
                    let x: $p = match i % 4 {
                        0 => (r as u128 | ((rng.next() as u128) << 64)) as $p,
                        1 => (rng.range(0, 70000) as i64 - 300) as $p,
                        2 => ((r % 20000) as $p).wrapping_add(((rng.below(4) as $p).wrapping_shl(16 + (r % 8) as u32))),
                        _ => (r as i64 >> (r % 48)) as $p,
                    };
                    v.push(x);
                }
                v.sort();
                v.dedup();
                v
            }
        }
    )* };
}
prim_wide!(u32: false, i32: true, u64: false, i64: true, u128: false, i128: true, usize: false, isize: true);

macro_rules! prim_newtype {
    ($($t:ident),*) => { $(
        impl Prim for $t {
            const PNAME: &'static str = stringify!($t);
            const EXHAUSTIVE: bool = true;
            fn small(self) -> Option<u32> { Some(self.get() as u32) }
            fn candidates(_rng: &mut Rng, _n: usize) -> Vec<Self> { (0..=<$t as NT>::MAXV).map(|v| <$t as NT>::make(v)).collect() }
        }
    )* };
}
prim_newtype!(U4, U7, U14, Channel, KeyNumber, ControllerNumber);

pub struct Stats {
    evals: u64,
    accepted: u64,
    rejected: u64,
    exhaustive_pairs: u64,
    sampled_pairs: u64,
}

fn conv_in<P, T>(mode: Mode, rng: &mut Rng, n_random: usize, rep: &mut Report, st: &mut Stats)
where
    P: Prim,
    T: NT + TryFrom<P>,
{
    let cands = P::candidates(rng, n_random);
    if P::EXHAUSTIVE {
        st.exhaustive_pairs += 1;
    } else {
        st.sampled_pairs += 1;
    }
    for p in cands {
        let small = p.small();
        let should_ok = matches!(small, Some(v) if v <= T::MAXV);
        let r = api("TryFrom/From <source> for <restricted integer>", || T::try_from(p).ok());
        st.evals += 1;
        let rp = json!({"kind":"conv-in","target":T::NAME,"source":P::PNAME,"input":p.describe()});
        let Some(r) = r else {
            crate::viol!(rep, 
                format!("{}:panic:conv-in:{}<-{}", mode.id(), T::NAME, P::PNAME),
                format!("{}::try_from({}{}) panicked", T::NAME, p.describe(), P::PNAME),
                rp,
            );
            continue;
        };
        match r {
            Some(x) => {
                st.accepted += 1;
                if mode == Mode::C04 && x.val() > T::MAXV {
                    crate::viol!(rep, 
                        format!("C04:out-of-range:conv-in:{}<-{}", T::NAME, P::PNAME),
                        format!(
                            "{}::try_from({} as {}) produced {:?} (> {})",
                            T::NAME,
                            p.describe(),
                            P::PNAME,
                            x,
                            T::MAXV
                        ),
                        rp.clone(),
                    );
                }
                if !should_ok {
                    crate::viol!(rep, 
                        format!("{}:accepts-out-of-range:conv-in:{}<-{}", mode.id(), T::NAME, P::PNAME),
                        format!(
                            "{}::try_from({} as {}) succeeded with {:?} although the value is outside 0..={}",
                            T::NAME,
                            p.describe(),
                            P::PNAME,
                            x,
                            T::MAXV
                        ),
                        rp,
                    );
                } else if mode == Mode::C05 && Some(x.val()) != small {
                    crate::viol!(rep, 
                        format!("C05:value-changed:conv-in:{}<-{}", T::NAME, P::PNAME),
                        format!("{}::try_from({} as {}) = {:?}", T::NAME, p.describe(), P::PNAME, x),
                        rp,
                    );
                }
            }
            None => {
                st.rejected += 1;
                if should_ok {
                    crate::viol!(rep, 
                        format!("{}:rejects-in-range:conv-in:{}<-{}", mode.id(), T::NAME, P::PNAME),
                        format!("{}::try_from({} as {}) failed although the value is in range", T::NAME, p.describe(), P::PNAME),
                        rp,
                    );
                }
            }
        }
    }
}

/// Autoref-specialisation probes: `(&&InProbe::<P, T>::new()).run(..)` runs the conversion
/// check if `T: TryFrom<P>` is implemented and does nothing otherwise, so that the harness can
/// name EVERY (source, target) pair — conversions added to the crate later are covered without
/// touching the harness, and removed ones do not break the build.
pub struct InProbe<P, T>(std::marker::PhantomData<(P, T)>);
impl<P, T> InProbe<P, T> {
    pub fn new() -> Self {
        InProbe(std::marker::PhantomData)
    }
}
pub trait InImplemented {
    fn run(&self, mode: Mode, rng: &mut Rng, n_random: usize, rep: &mut Report, st: &mut Stats);
}
impl<P: Prim, T: NT + TryFrom<P>> InImplemented for &InProbe<P, T> {
    fn run(&self, mode: Mode, rng: &mut Rng, n_random: usize, rep: &mut Report, st: &mut Stats) {
        rep.count("conversion_impls_found_into_restricted_integers", 1);
        conv_in::<P, T>(mode, rng, n_random, rep, st);
    }
}
pub trait InMissing {
    fn run(&self, _mode: Mode, _rng: &mut Rng, _n_random: usize, rep: &mut Report, _st: &mut Stats);
}
impl<P, T> InMissing for &&InProbe<P, T> {
    fn run(&self, _mode: Mode, _rng: &mut Rng, _n_random: usize, rep: &mut Report, _st: &mut Stats) {
        rep.count("conversion_pairs_not_implemented_by_the_crate", 1);
    }
}

pub struct OutProbe<T, O>(std::marker::PhantomData<(T, O)>);
impl<T, O> OutProbe<T, O> {
    pub fn new() -> Self {
        OutProbe(std::marker::PhantomData)
    }
}
pub trait OutImplemented {
    fn run(&self, mode: Mode, rep: &mut Report, st: &mut Stats);
}
impl<T: NT, O: OutPrim + From<T> + Observe> OutImplemented for &OutProbe<T, O> {
    fn run(&self, mode: Mode, rep: &mut Report, st: &mut Stats) {
        rep.count("conversion_impls_found_out_of_restricted_integers", 1);
        conv_out::<T, O>(mode, rep, st);
    }
}
pub trait OutMissing {
    fn run(&self, _mode: Mode, _rep: &mut Report, _st: &mut Stats);
}
impl<T, O> OutMissing for &&OutProbe<T, O> {
    fn run(&self, _mode: Mode, _rep: &mut Report, _st: &mut Stats) {}
}

/// Target side of "conversion out": value as i128-ish comparison through a widening cast.
pub trait OutPrim: Copy + std::fmt::Debug + 'static {
    const ONAME: &'static str;
    fn as_u32_exact(self) -> Option<u32>;
}
macro_rules! out_prim {
    ($($p:ty),*) => { $( impl OutPrim for $p {
        const ONAME: &'static str = stringify!($p);
        #[allow(unused_comparisons)]
        fn as_u32_exact(self) -> Option<u32> { if self >= 0 && (self as i128) <= 65535 { Some(self as u32) } else { None } }
    } )* };
}
out_prim!(u8, i8, u16, i16, u32, i32, u64, i64, u128, i128, usize, isize);
macro_rules! out_newtype {
    ($($t:ident),*) => { $( impl OutPrim for $t {
        const ONAME: &'static str = stringify!($t);
        fn as_u32_exact(self) -> Option<u32> { Some(self.get() as u32) }
    } )* };
}
out_newtype!(U4, U7, U14, Channel, KeyNumber, ControllerNumber);

fn conv_out<T, O>(mode: Mode, rep: &mut Report, st: &mut Stats)
where
    T: NT,
    O: OutPrim + From<T> + Observe,
{
    st.exhaustive_pairs += 1;
    for v in 0..=T::MAXV {
        let t = T::make(v);
        let r = api("From<restricted integer> for <target>", || O::from(t));
        st.evals += 1;
        let rp = json!({"kind":"conv-out","source":T::NAME,"target":O::ONAME,"input":v});
        match r {
            None => crate::viol!(rep, 
                format!("{}:panic:conv-out:{}->{}", mode.id(), T::NAME, O::ONAME),
                format!("{}::from({:?}) panicked", O::ONAME, t),
                rp,
            ),
            Some(o) => {
                if mode == Mode::C05 && o.as_u32_exact() != Some(v) {
                    crate::viol!(rep, 
                        format!("C05:value-changed:conv-out:{}->{}", T::NAME, O::ONAME),
                        format!("{}::from({:?}) = {:?}", O::ONAME, t, o),
                        rp,
                    );
                }
                // C04: range of a restricted-integer target is checked by the range observer in api()
            }
        }
    }
}

fn ctor_and_consts<T: NT>(mode: Mode, rep: &mut Report, st: &mut Stats) {
    // T::new over the whole repr range
    for v in 0..=T::REPR_MAX {
        if crate::mon::ABORT_BUILD && v > T::MAXV {
            break;
        }
        let r = api_probe("<restricted integer>::new", || T::new_raw(v));
        st.evals += 1;
        let rp = json!({"kind":"new","type":T::NAME,"input":v});
        match r {
            Ok(x) => {
                if v > T::MAXV {
                    if mode == Mode::C04 {
                        crate::viol!(rep, 
                            format!("C04:new-does-not-panic:{}", T::NAME),
                            format!("{}::new({}) returned {:?} instead of panicking (max {})", T::NAME, v, x, T::MAXV),
                            rp,
                        );
                    }
                } else if x.val() != v {
                    crate::viol!(rep, 
                        format!("{}:new-value:{}", mode.id(), T::NAME),
                        format!("{}::new({}) = {:?}", T::NAME, v, x),
                        rp,
                    );
                }
            }
            Err(msg) => {
                if v <= T::MAXV {
                    crate::viol!(rep, 
                        format!("{}:new-panics-in-range:{}", mode.id(), T::NAME),
                        format!("{}::new({}) panicked: {}", T::NAME, v, msg),
                        rp,
                    );
                } else {
                    note_expected_panic("<restricted integer>::new");
                }
            }
        }
    }
    // constants
    let r = api("MIN/MAX/Default", || (T::min_c(), T::max_c(), T::default()));
    st.evals += 1;
    match r {
        Some((mn, mx, df)) => {
            if mn.val() != 0 || mx.val() != T::MAXV || df != mn {
                crate::viol!(rep, 
                    format!("{}:constants:{}", mode.id(), T::NAME),
                    format!("{}: MIN={:?} MAX={:?} Default={:?}", T::NAME, mn, mx, df),
                    json!({"kind":"constants","type":T::NAME}),
                );
            }
        }
        None => crate::viol!(rep, 
            format!("{}:panic:constants:{}", mode.id(), T::NAME),
            "constants panicked".to_string(),
            json!({"kind":"constants","type":T::NAME}),
        ),
    }
}

/// Independent recogniser of unsigned decimal numerals: '+'? digit+ ; value saturating.
fn recognise(s: &str) -> Option<u64> {
    let b = s.as_bytes();
    let digits = if !b.is_empty() && b[0] == b'+' { &b[1..] } else { b };
    if digits.is_empty() {
        return None;
    }
    let mut v: u64 = 0;
    for &c in digits {
        if !c.is_ascii_digit() {
            return None;
        }
        v = v.saturating_mul(10).saturating_add((c - b'0') as u64);
    }
    Some(v)
}

fn parse_one<T: NT>(mode: Mode, s: &str, rep: &mut Report, st: &mut Stats) {
    let r = api("str::parse::<restricted integer>", || s.parse::<T>().ok());
    st.evals += 1;
    let exp = recognise(s).filter(|v| *v <= T::MAXV as u64);
    let rp = json!({"kind":"parse","type":T::NAME,"input":s});
    match r {
        None => crate::viol!(rep, 
            format!("{}:panic:parse:{}", mode.id(), T::NAME),
            format!("{:?}.parse::<{}>() panicked", s, T::NAME),
            rp,
        ),
        Some(Some(x)) => {
            if mode == Mode::C04 && x.val() > T::MAXV {
                crate::viol!(rep, 
                    format!("C04:out-of-range:parse:{}", T::NAME),
                    format!("{:?}.parse::<{}>() = {:?}", s, T::NAME, x),
                    rp.clone(),
                );
            }
            match exp {
                None => crate::viol!(rep, 
                    format!("{}:parse-accepts:{}", mode.id(), T::NAME),
                    format!("{:?}.parse::<{}>() = {:?} but the string is not an in-range unsigned decimal numeral", s, T::NAME, x),
                    rp,
                ),
                Some(v) => {
                    if mode == Mode::C05 && x.val() as u64 != v {
                        crate::viol!(rep, 
                            format!("C05:parse-value:{}", T::NAME),
                            format!("{:?}.parse::<{}>() = {:?}, expected {}", s, T::NAME, x, v),
                            rp,
                        );
                    }
                }
            }
        }
        Some(None) => {
            if exp.is_some() {
                crate::viol!(rep, 
                    format!("{}:parse-rejects:{}", mode.id(), T::NAME),
                    format!("{:?}.parse::<{}>() failed but the numeral is in range", s, T::NAME),
                    rp,
                );
            }
        }
    }
}

fn parsing<T: NT>(mode: Mode, rep: &mut Report, st: &mut Stats, full: bool) -> u64 {
    const ALPHA: &[u8] = b"0123456789+- a";
    let mut n = 0u64;
    let maxlen = if full { 4 } else { 3 };
    let mut buf = [0u8; 4];
    // all strings up to maxlen
    parse_one::<T>(mode, "", rep, st);
    n += 1;
    for len in 1..=maxlen {
        let total = (ALPHA.len() as u64).pow(len as u32);
        for mut i in 0..total {
            for k in 0..len {
                buf[k] = ALPHA[(i % ALPHA.len() as u64) as usize];
                i /= ALPHA.len() as u64;
            }
            let s = std::str::from_utf8(&buf[..len]).unwrap();
            parse_one::<T>(mode, s, rep, st);
            n += 1;
        }
    }
    // boundary, leading-zero, overlong numerals
    let m = T::MAXV as u64;
    let mut extra: Vec<String> = vec![];
    for v in [0, 1, m - 1, m, m + 1, m + 2, 255, 256, 257, 65535, 65536, 65537, 99999, 4294967295, 4294967296, 4294967296 + m] {
        extra.push(format!("{}", v));
        extra.push(format!("+{}", v));
        extra.push(format!("-{}", v));
        extra.push(format!("00{}", v));
        extra.push(format!("+000000000000000000000000000000{}", v));
        extra.push(format!(" {}", v));
        extra.push(format!("{} ", v));
        extra.push(format!("{}.0", v));
        extra.push(format!("0x{:x}", v));
        extra.push(format!("{}_", v));
        extra.push(format!("++{}", v));
    }
    extra.push("99999999999999999999999999999999999999999999".into());
    extra.push("18446744073709551616".into());
    extra.push("340282366920938463463374607431768211456".into());
    extra.push("١٢".into()); // non-ASCII digits
    extra.push("１２".into());
    extra.push("1e1".into());
    extra.push("\u{0}".into());
    for s in &extra {
        parse_one::<T>(mode, s, rep, st);
        n += 1;
    }
    if full {
        // every Unicode scalar value as a one-character string and next to an ASCII digit: only
        // the ten ASCII digits may be accepted (catches byte-truncating / locale-aware digit tests)
        let mut b = String::with_capacity(16);
        for cp in 0u32..=0x10FFFF {
            let Some(c) = char::from_u32(cp) else { continue };
            if cp > 0x3000 && cp % 3 != 0 && !(0xFF00..0xFFFF).contains(&cp) && !(0x1D7C0..0x1D800).contains(&cp) {
                continue; // thinned above the BMP's first planes, except digit-like blocks
            }
            b.clear();
            b.push(c);
            parse_one::<T>(mode, &b, rep, st);
            b.clear();
            b.push('1');
            b.push(c);
            parse_one::<T>(mode, &b, rep, st);
            b.clear();
            b.push(c);
            b.push('1');
            parse_one::<T>(mode, &b, rep, st);
            n += 3;
        }
    }
    n
}

fn display_and_order<T: NT>(mode: Mode, rng: &mut Rng, rep: &mut Report, st: &mut Stats) {
    if mode != Mode::C05 {
        return;
    }
    let mut buf: StackBuf<32> = StackBuf::new();
    let mut dec: StackBuf<32> = StackBuf::new();
    for v in 0..=T::MAXV {
        let x = T::make(v);
        buf.clear();
        let r = api("Display for <restricted integer>", || write!(buf, "{}", x).is_ok());
        st.evals += 1;
        dec.clear();
        let _ = write!(dec, "{}", v);
        let text_ok = r == Some(true) && buf.as_str() == dec.as_str();
        let back = api("str::parse::<restricted integer>", || buf.as_str().parse::<T>().ok());
        if !text_ok || back != Some(Some(x)) {
            crate::viol!(rep, 
                format!("C05:display:{}", T::NAME),
                format!("Display of {:?} printed {:?}; parsing it back gave {:?}", x, buf.as_str(), back),
                json!({"kind":"display","type":T::NAME,"input":v}),
            );
        }
    }
    // Display under format specifications (width, fill, alignment, sign, zero flag, precision,
    // alternate): whatever padding or sign the implementation chooses to honour, the digits
    // printed are the decimal value — nothing cut off, nothing added
    macro_rules! spec {
        ($x:expr, $v:expr, $fmt:literal, $fill:expr, $zero:expr) => {{
            buf.clear();
            let x = $x;
            let r = api("Display for <restricted integer> (format specification)", || write!(buf, $fmt, x).is_ok());
            st.evals += 1;
            let fill: char = $fill;
            let mut t = buf.as_str().trim_matches(|c: char| c == fill || c == ' ');
            t = t.strip_prefix('+').unwrap_or(t);
            if $zero || fill == '0' {
                let z = t.trim_start_matches('0');
                t = if z.is_empty() && !t.is_empty() { "0" } else { z };
            }
            dec.clear();
            let _ = write!(dec, "{}", $v);
            if r != Some(true) || t != dec.as_str() {
                crate::viol!(
                    rep,
                    format!("C05:display-with-format-spec:{}", T::NAME),
                    format!("Display of {:?} with the format specification {:?} printed {:?} (digits {:?}), expected the digits {:?}", x, $fmt, buf.as_str(), t, dec.as_str()),
                    json!({"kind":"display-spec","type":T::NAME,"input":$v,"spec":$fmt}),
                );
            }
        }};
    }
    let step = if T::MAXV > 127 { 7 } else { 1 };
    let mut v = 0u32;
    while v <= T::MAXV {
        for w in [v, T::MAXV - v] {
            let x = T::make(w);
            spec!(x, w, "{:7}", ' ', false);
            spec!(x, w, "{:<7}", ' ', false);
            spec!(x, w, "{:^9}", ' ', false);
            spec!(x, w, "{:*>8}", '*', false);
            spec!(x, w, "{:07}", ' ', true);
            spec!(x, w, "{:+}", ' ', false);
            spec!(x, w, "{:#}", ' ', false);
            spec!(x, w, "{:.0}", ' ', false);
            spec!(x, w, "{:.1}", ' ', false);
            spec!(x, w, "{:.3}", ' ', false);
            spec!(x, w, "{:8.2}", ' ', false);
            spec!(x, w, "{:+09.4}", ' ', true);
            spec!(x, w, "{:1}", ' ', false);
        }
        v += step;
    }
    // ordering / equality agree with the numeric value
    let check_pair = |a: u32, b: u32, rep: &mut Report, st: &mut Stats| {
        let (x, y) = (T::make(a), T::make(b));
        let r = api("Ord/PartialOrd/Eq for <restricted integer>", || {
            (x.cmp(&y), x.partial_cmp(&y), x == y, x < y, x <= y, x > y, x >= y, x.max(y), x.min(y))
        });
        st.evals += 1;
        let exp = a.cmp(&b);
        let ok = match r {
            Some((c, pc, eq, lt, le, gt, ge, mx, mn)) => {
                c == exp
                    && pc == Some(exp)
                    && eq == (a == b)
                    && lt == (a < b)
                    && le == (a <= b)
                    && gt == (a > b)
                    && ge == (a >= b)
                    && mx.val() == a.max(b)
                    && mn.val() == a.min(b)
            }
            None => false,
        };
        if !ok {
            crate::viol!(rep, 
                format!("C05:ordering:{}", T::NAME),
                format!("{}: comparing {} and {} gave {:?}", T::NAME, a, b, r.map(|t| (t.0, t.2))),
                json!({"kind":"order","type":T::NAME,"a":a,"b":b}),
            );
        }
    };
    if T::MAXV <= 127 {
        for a in 0..=T::MAXV {
            for b in 0..=T::MAXV {
                check_pair(a, b, rep, st);
            }
        }
    } else {
        for a in 0..=T::MAXV {
            for b in [a.saturating_sub(1), a, (a + 1).min(T::MAXV), 0, T::MAXV, 255, 256, 127, 128, a ^ 0x100, a ^ 0x80] {
                check_pair(a, b.min(T::MAXV), rep, st);
            }
            let b = rng.below(T::MAXV as u64 + 1) as u32;
            check_pair(a, b, rep, st);
        }
    }
}

pub fn run(mode: Mode, cfg: &Cfg, rep: &mut Report) {
    let mut rng = Rng::derive(cfg.seed, 0xC04);
    // the serde build is a third configuration: the conversion code is the same as in the std
    // build, so its (secondary) quick run is lighter
    let light = cfg.secondary && cfg!(feature = "serde") && !cfg.thorough;
    let nrand = if light { 2_000 } else { cfg.size(200, 100_000, 2_000_000) as usize };
    let mut st = Stats {
        evals: 0,
        accepted: 0,
        rejected: 0,
        exhaustive_pairs: 0,
        sampled_pairs: 0,
    };
    rep.rule("every implemented conversion into/out of U4, U7, U14, Channel, KeyNumber, ControllerNumber: exhaustive over 8/16-bit sources and all newtype values; boundaries, powers of two +-1, truncation traps and seeded random values for 32/64/128-bit and pointer-sized sources; T::new over the whole repr range; all strings over {0-9,+,-,space,a} up to length 4 (quick in C18 mode: 3) plus boundary/leading-zero/overlong numerals; Display, Ord/Eq on all values (all pairs for 7-bit types); non-trivial = an input whose outcome is decided by the range check (accepted in-range value, rejected out-of-range value or expected panic), counted per distinct (type, source type, input) ; every Unicode scalar value (thinned above U+3000 except digit blocks) is parsed alone and next to an ASCII digit");

    // every (source, target) pair of the 12 primitive integer types and the 6 restricted types
    macro_rules! grid {
        ($($T:ident),*) => { $(
            grid!(@in $T; u8, i8, u16, i16, u32, i32, u64, i64, u128, i128, usize, isize, U4, U7, U14, Channel, KeyNumber, ControllerNumber);
            grid!(@out $T; u8, i8, u16, i16, u32, i32, u64, i64, u128, i128, usize, isize, U4, U7, U14, Channel, KeyNumber, ControllerNumber);
        )* };
        (@in $T:ident; $($P:ty),*) => { $(
            if stringify!($P) != stringify!($T) {
                (&&InProbe::<$P, $T>::new()).run(mode, &mut rng, nrand, rep, &mut st);
            }
        )* };
        (@out $T:ident; $($O:ty),*) => { $(
            if stringify!($O) != stringify!($T) {
                (&&OutProbe::<$T, $O>::new()).run(mode, rep, &mut st);
            }
        )* };
    }
    grid!(U4, U7, U14, Channel, KeyNumber, ControllerNumber);

    macro_rules! per_type {
        ($($T:ty),*) => { $(
            ctor_and_consts::<$T>(mode, rep, &mut st);
            let n = parsing::<$T>(mode, rep, &mut st, !(cfg.as_c18 && !cfg.thorough) && !light);
            rep.count("strings_parsed", n);
            display_and_order::<$T>(mode, &mut rng, rep, &mut st);
        )* };
    }
    per_type!(U4, U7, U14, Channel, KeyNumber, ControllerNumber);

    if mode == Mode::C04 && !cfg.as_c18 {
        // every restricted integer returned by the message-producing APIs passes the range
        // observer (decided in main: Range hits become C04 violations)
        let mut sub = cfg.clone();
        sub.as_c18 = true;
        let mut ran = vec![];
        for id in ["C01", "C06", "C07", "C09", "C10", "C11", "C12", "C14"] {
            let mut r = Report::new();
            sub.prop = id.to_string();
            if super::run_prop(id, &sub, &mut r) {
                ran.push(id);
                rep.count("range_observer_sub_workload_evaluations", r.evaluations);
            }
        }
        #[cfg(feature = "serde")]
        {
            // serde configuration: every restricted integer produced by deserialization passes the
            // range observer as well (Range hits inside the C19 workload become C04 violations)
            let mut r = Report::new();
            sub.prop = "C19".to_string();
            if super::run_prop("C19", &sub, &mut r) {
                ran.push("C19 (serde build)");
                rep.count("range_observer_sub_workload_evaluations", r.evaluations);
            }
        }
        rep.notes.insert("range_observer_sub_workloads".into(), json!(ran));
    }
    rep.evaluations += st.evals;
    // measured: inputs whose outcome is decided by the range check
    rep.distinct_nontrivial += st.accepted + st.rejected;
    rep.count("conversions_accepted", st.accepted);
    rep.count("conversions_rejected", st.rejected);
    rep.count("conversion_pairs_exhaustive", st.exhaustive_pairs);
    rep.count("conversion_pairs_boundary_plus_sampled", st.sampled_pairs);
    rep.set_exhaustive(false);
    rep.assume("32/64/128-bit and pointer-sized conversion sources are covered by boundaries, powers of two +-1, truncation traps and seeded random values, not exhaustively");
    rep.sample(json!({"conversion":"U14::try_from(-1i8)","expected":"Err (or not accepted)"}));
    rep.sample(json!({"conversion":"U7::try_from(128u8)","expected":"Err"}));
    rep.sample(json!({"conversion":"U4::try_from(4294967311u64)","expected":"Err (value is 15 modulo 2^32)"}));
    rep.sample(json!({"parse":"\"+16383\".parse::<U14>()","expected":"Ok(16383)"}));
    rep.sample(json!({"parse":"\"-0\".parse::<U7>()","expected":"Err"}));
    rep.sample(json!({"new":"Channel::new(16)","expected":"panic"}));
}
