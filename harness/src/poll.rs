//! Online monitor (trace checker) for the polling (N)RPN scanner: owns the real scanner, a
//! virtual clock and a per-channel history observer; every feed / poll / tick / reset is applied
//! to the real scanner through the API boundary (with the thread's mock clock set to the
//! monitor's clock) and judged against the rules of C13, C14 (+ C15, C16, C17 side conditions).

use crate::mon::api;
use crate::report::Report;
use crate::scan::*;
use crate::spec::*;
use helgoboss_midi::verif_hooks::set_mock_time;
use helgoboss_midi::*;
use serde_json::json;
use std::time::Duration;

pub const T_INF: u64 = u64::MAX;

pub fn dur(timeout_ns: u64) -> Duration {
    if timeout_ns == T_INF {
        Duration::MAX
    } else {
        Duration::from_nanos(timeout_ns)
    }
}

pub type Outs = [Option<PnM>; 2];

pub const WRAP32_NS: u64 = 1 << 32; // 4.29 s
pub const ONE_S: u64 = 1_000_000_000;
pub const ONE_H: u64 = 3_600 * ONE_S;
pub const WRAP32_US: u64 = (1u64 << 32) * 1000; // 71.6 min

/// Clock steps at the boundaries of common representations of time (32-bit nanosecond /
/// microsecond counters, the seconds/sub-second split of Duration, "one hour"), each landing
/// `h` ns after the boundary: an age of k*2^32 ns + h with h below the timeout is "expired" for
/// a correct comparison and "fresh" for a truncating one.
pub const WRAP32_MS: u64 = (1u64 << 32) * 1_000_000; // 49.7 days
pub const WRAP32_S: u64 = (1u64 << 32) * ONE_S; // 136 years (4.29e18 ns; two of them still fit in u64)
pub const T_150Y: u64 = 150 * 365 * 86_400 * ONE_S; // a finite timeout beyond 2^32 s

pub fn hostile_ticks(h: u64) -> [u64; 6] {
    [WRAP32_NS + h, ONE_S + h, WRAP32_US + h, ONE_H + h, WRAP32_MS + h, WRAP32_S.saturating_add(h)]
}

/// Age class used in explorer keys: ages are capped (correct code cannot distinguish ages at or
/// beyond the timeout).
pub fn age_class(age: u64, cap: u64) -> u64 {
    age.min(cap)
}

pub fn outs_of(o: &[Option<ParameterNumberMessage>; 2]) -> Outs {
    [o[0].as_ref().map(pnm), o[1].as_ref().map(pnm)]
}

/// the most recent controller-6 byte on a channel
#[derive(Copy, Clone, PartialEq, Eq, Debug, Default)]
pub struct Six {
    pub val: u8,
    pub t: u64,
    /// was the parameter number complete when the byte arrived?
    pub complete: bool,
    /// 0 = not reported yet, 1 = reported as 7-bit, 2 = part of a 14-bit report
    pub status: u8,
}

#[derive(Copy, Clone, PartialEq, Eq, Debug, Default)]
pub struct ChObs {
    pub msb: Option<u8>,
    pub lsb: Option<u8>,
    pub registered: bool,
    pub last6: Option<Six>,
    pub last38: Option<(u8, u64)>,
    /// arrival time of the most recent value byte (6 or 38)
    pub last_value_t: Option<u64>,
}

impl ChObs {
    pub fn number(&self) -> Option<u16> {
        Some(self.msb? as u16 * 128 + self.lsb? as u16)
    }
    pub fn pending(&self) -> Option<Six> {
        self.last6.filter(|s| s.complete && s.status == 0)
    }
}

pub const T_YEAR: u64 = 365 * 86_400 * ONE_S; // beyond 2^53 ns: not exact in f64 seconds

/// Durations of 2^64 ns and more cannot be told from "infinite" on a 64-bit nanosecond clock;
/// the oracle treats them as T_INF while the real scanner is built with the real Duration.
pub fn huge_durations() -> [Duration; 5] {
    [
        Duration::from_secs(1 << 55), // exactly 1953125 * 2^64 ns: wraps to 0 in u64 nanoseconds
        Duration::from_secs((1 << 55) + 3),
        Duration::from_secs(u64::MAX),
        Duration::from_nanos(u64::MAX) + Duration::from_nanos(7),
        Duration::new(18_446_744_073, 709_551_616 + 1_500), // 2^64 ns + 1.5 us
    ]
}

#[derive(Clone)]
pub struct PollMon {
    pub real: PollingParameterNumberMessageScanner,
    /// the Duration the real scanner was created with
    pub real_timeout: Duration,
    pub now: u64,
    pub timeout: u64,
    pub obs: [ChObs; 16],
    /// ages are normalised to min(age, age_cap) in explorer keys
    pub age_cap: u64,
    /// check time independence of feed (P5) on every feed
    pub p5: bool,
    p5_rot: u8,
}

impl PollMon {
    pub fn new(timeout: u64) -> Self {
        set_mock_time(0);
        // default() is a zero timeout: every other zero-timeout monitor is created that way
        let real = if timeout == 0 && crate::scan::construct_by_default() {
            api("PollingParameterNumberMessageScanner::default", PollingParameterNumberMessageScanner::default)
                .unwrap_or_else(|| PollingParameterNumberMessageScanner::new(dur(timeout)))
        } else {
            PollingParameterNumberMessageScanner::new(dur(timeout))
        };
        PollMon {
            real,
            real_timeout: dur(timeout),
            now: 0,
            timeout,
            obs: [ChObs::default(); 16],
            age_cap: if timeout == T_INF { 3000 } else { timeout },
            p5: true,
            p5_rot: 0,
        }
    }

    /// a scanner with a timeout of 2^64 ns or more (oracle: never expires)
    pub fn new_huge(d: Duration) -> Self {
        let mut m = PollMon::new(T_INF);
        m.real = PollingParameterNumberMessageScanner::new(d);
        m.real_timeout = d;
        m
    }

    fn hj(&self, path: &dyn Fn() -> Vec<String>, exp: serde_json::Value, got: serde_json::Value) -> serde_json::Value {
        history_json("polling", Some(self.timeout), path, exp, got)
    }

    #[inline]
    fn expired(&self, t: u64) -> bool {
        self.timeout != T_INF && self.now - t >= self.timeout
    }

    /// C14 rules for one reported message of a call on channel c; `cur` = (controller, value) of
    /// the current Control Change (None for poll). Returns the updated status of the previous
    /// controller-6 byte and whether the current controller-6 byte became part of a 14-bit report.
    fn judge_report(
        &self,
        c: u8,
        cur: Option<(u8, u8)>,
        r: &PnM,
        six_status: &mut Option<u8>,
        cur6_in14: &mut bool,
        what: &str,
        rep: &mut Report,
        path: &dyn Fn() -> Vec<String>,
    ) {
        let pre = &self.obs[c as usize];
        let mut bad = |sig: &str, detail: String, rep: &mut Report| {
            crate::viol!(rep, 
                format!("C14:{}", sig),
                format!("{} on channel {} reported {:?}: {}", what, c, r, detail),
                self.hj(path, json!(detail), r.json()),
            );
        };
        if r.ch != c {
            bad("report-on-wrong-channel", format!("triggering call was on channel {}", c), rep);
            crate::viol!(rep, 
                "C15:polling:report-on-wrong-channel",
                format!("{} on channel {} reported {:?}", what, c, r),
                self.hj(path, json!(c), json!(r.ch)),
            );
        }
        let Some(number) = pre.number() else {
            bad("report-before-number-complete", "no complete parameter number has been received".into(), rep);
            return;
        };
        if r.number != number {
            bad("wrong-number", format!("latest number bytes give {}", number), rep);
        }
        if r.registered != pre.registered {
            bad("wrong-registered-flag", format!("most recent number byte was {}", if pre.registered { "registered" } else { "non-registered" }), rep);
        }
        if r.dt != 0 {
            let ok = matches!(cur, Some((n, v)) if (n == 96 && r.dt == 1 || n == 97 && r.dt == 2) && r.value == v as u16) && !r.is14;
            if !ok {
                bad("incdec-not-justified", format!("current message is {:?}", cur), rep);
            }
        } else if !r.is14 {
            match pre.last6 {
                None => bad("7bit-without-controller-6", "no controller-6 byte has been received".into(), rep),
                Some(s) => {
                    if r.value != s.val as u16 {
                        bad("7bit-value-not-most-recent-controller-6", format!("most recent controller-6 value before the call is {}", s.val), rep);
                    } else {
                        match six_status.unwrap_or(0) {
                            0 => *six_status = Some(1),
                            1 => bad("duplicate-7bit", "this controller-6 byte was already reported as 7-bit".into(), rep),
                            _ => bad("7bit-after-14bit", "this controller-6 byte was already part of a 14-bit report".into(), rep),
                        }
                    }
                }
            }
        } else {
            let cur6 = matches!(cur, Some((6, _)));
            let cur38 = matches!(cur, Some((38, _)));
            if !(cur6 || cur38) {
                bad("14bit-not-triggered-by-value-byte", format!("current message is {:?}", cur), rep);
                return;
            }
            let m6 = if cur6 { cur.map(|x| x.1) } else { pre.last6.map(|s| s.val) };
            let m38 = if cur38 { cur.map(|x| x.1) } else { pre.last38.map(|s| s.0) };
            match (m6, m38) {
                (Some(a), Some(b)) if r.value == a as u16 * 128 + b as u16 => {
                    if cur6 {
                        *cur6_in14 = true;
                    } else {
                        *six_status = Some(2);
                    }
                }
                _ => bad(
                    "14bit-value-not-justified",
                    format!("most recent controller-6 / controller-38 values are {:?} / {:?}", m6, m38),
                    rep,
                ),
            }
        }
    }

    pub fn apply(&mut self, ev: &Ev, rep: &mut Report, path: &dyn Fn() -> Vec<String>) -> Outs {
        match ev {
            Ev::Tick(n) => {
                self.now = self.now.saturating_add(*n);
                rep.count("poll_ticks", 1);
                [None, None]
            }
            Ev::Reset => {
                set_mock_time(self.now);
                let real = &mut self.real;
                let r = api("PollingParameterNumberMessageScanner::reset", || real.reset());
                self.obs = [ChObs::default(); 16];
                rep.count("poll_resets", 1);
                let t = self.real_timeout;
                let fresh = api("PollingParameterNumberMessageScanner::new", || {
                    PollingParameterNumberMessageScanner::new(t)
                });
                if r.is_none() || fresh != Some(self.real) {
                    crate::viol!(rep, 
                        "C17:polling:reset-not-equal-new",
                        "after reset() the scanner does not compare equal to a new one with the same timeout".to_string(),
                        self.hj(path, json!("== new(timeout)"), json!(format!("{:?}", self.real).chars().take(300).collect::<String>())),
                    );
                }
                [None, None]
            }
            Ev::Msg(s, a, b) => self.feed(*s, *a, *b, ev, rep, path),
            Ev::Poll(c) => {
                let r = self.poll(*c, rep, path);
                [r, None]
            }
            Ev::TickPoll(n, c) => {
                self.now = self.now.saturating_add(*n);
                rep.count("poll_ticks", 1);
                rep.count("poll_polls_after_hostile_clock_step", 1);
                let r = self.poll(*c, rep, path);
                [r, None]
            }
        }
    }

    fn feed(&mut self, s: u8, a: u8, b: u8, ev: &Ev, rep: &mut Report, path: &dyn Fn() -> Vec<String>) -> Outs {
        let m = raw(s, a, b);
        set_mock_time(self.now);
        let before = self.real;
        let real = &mut self.real;
        let got = api("PollingParameterNumberMessageScanner::feed", || real.feed(&m));
        rep.count("poll_feeds", 1);
        let Some(got) = got else {
            crate::viol!(rep, 
                "C14:panic:feed",
                format!("feed({}) panicked", ev.render()),
                self.hj(path, json!("no panic"), json!("panic")),
            );
            return [None, None];
        };
        let outs = outs_of(&got);
        // carrier twin: StructuredShortMessage / foreign implementor instead of RawShortMessage
        {
            let mut twin = before;
            let g2 = api("PollingParameterNumberMessageScanner::feed", || {
                let st = m.to_structured();
                twin.feed(&st)
            });
            let mut twin3 = before;
            let g3 = api("PollingParameterNumberMessageScanner::feed", || {
                let fo: crate::carriers::Foreign = m.to_other();
                twin3.feed(&fo)
            });
            if g2 != Some(got) || twin != self.real || g3 != Some(got) || twin3 != self.real {
                crate::viol!(
                    rep,
                    "C14:result-depends-on-message-representation",
                    format!("feed({}) returned {:?} for RawShortMessage but {:?} / {:?} for StructuredShortMessage / a foreign implementor (states equal: {} / {})", ev.render(), outs, g2.map(|g| outs_of(&g)), g3.map(|g| outs_of(&g)), twin == self.real, twin3 == self.real),
                    self.hj(path, json!(format!("{:?}", outs)), json!("differs by carrier"))
                );
            }
        }
        // P5: the mere passage of time never changes what feed returns
        if self.p5 {
            self.p5_rot = self.p5_rot.wrapping_add(1);
            let t = if self.timeout == T_INF { 1_000_000 } else { self.timeout };
            let delta = match self.p5_rot % 10 {
                0 => t.saturating_sub(1),
                1 => t,
                2 => t.saturating_add(1),
                3 => t.saturating_mul(10).saturating_add(7),
                k => hostile_ticks(t / 2)[(k - 4) as usize],
            };
            // the mock clock is a u64 of nanoseconds: keep the shifted instants representable
            // (a saturated clock would make "later" and "much later" the same instant)
            let delta = delta.min((u64::MAX - self.now) / 4);
            let mut twin = before;
            set_mock_time(self.now.saturating_add(delta));
            let got2 = api("PollingParameterNumberMessageScanner::feed", || twin.feed(&m));
            set_mock_time(self.now);
            rep.count("poll_p5_time_shifted_feeds", 1);
            // ... and whatever was pending before or became pending now is still delivered by a
            // (very) late poll on both twins alike
            if let (Some(c), Some(_)) = (ev.channel(), got2) {
                let late = self.now.checked_add(delta).and_then(|x| x.checked_add(self.timeout)).and_then(|x| x.checked_add(ONE_H + 1));
                if let (true, Some(late)) = (self.timeout != T_INF, late) {
                    let mut orig = self.real;
                    set_mock_time(late);
                    let pa = api("PollingParameterNumberMessageScanner::poll", || orig.poll(ch(c)));
                    let pb = api("PollingParameterNumberMessageScanner::poll", || twin.poll(ch(c)));
                    set_mock_time(self.now);
                    if pa != pb {
                        rep.violation_p5_late(ev, self.now, delta, pa.flatten().as_ref().map(pnm), pb.flatten().as_ref().map(pnm), self.timeout, path);
                    }
                }
            }
            if got2 != Some(got) {
                crate::viol!(rep, 
                    "C13:feed-result-depends-on-time",
                    format!(
                        "feed({}) returned {:?} at t={} but {:?} when the same scanner state was fed {} ns later",
                        ev.render(),
                        outs,
                        self.now,
                        got2.map(|g| outs_of(&g)),
                        delta
                    ),
                    self.hj(path, json!(format!("{:?}", outs)), json!(format!("{:?}", got2.map(|g| outs_of(&g))))),
                );
            }
        }
        let Some(c) = ev.channel() else {
            // system message: nothing, no effect
            rep.count("poll_system_messages", 1);
            if outs != [None, None] || self.real != before {
                crate::viol!(rep, 
                    "C15:polling:system-message-not-ignored",
                    format!("system message {} returned {:?}; state changed: {}", ev.render(), outs, self.real != before),
                    self.hj(path, json!("[None, None], equal state"), json!(format!("{:?}", outs))),
                );
                crate::viol!(rep, 
                    "C16:polling:not-transparent",
                    format!("system message {} returned {:?}; state changed: {}", ev.render(), outs, self.real != before),
                    self.hj(path, json!("[None, None], equal state"), json!(format!("{:?}", outs))),
                );
            }
            return outs;
        };
        let cc = ev.as_cc();
        let cur = cc.map(|(_, n, v)| (n, v));
        let contributing = matches!(cur, Some((n, _)) if is_pn_controller(n));
        if !contributing {
            rep.count("poll_noncontributing_feeds", 1);
            if outs != [None, None] || self.real != before {
                crate::viol!(rep, 
                    "C16:polling:not-transparent",
                    format!("non-contributing message {} returned {:?}; state changed: {}", ev.render(), outs, self.real != before),
                    self.hj(path, json!("[None, None], equal state"), json!(format!("{:?}", outs))),
                );
            }
        }
        // C14 report rules
        let pre = self.obs[c as usize];
        let mut six_status = pre.last6.map(|s| s.status);
        let mut cur6_in14 = false;
        for r in outs.iter().flatten() {
            rep.count(
                match (r.is14, r.dt) {
                    (true, _) => "poll_reports_14bit",
                    (false, 0) => "poll_reports_7bit_by_feed",
                    _ => "poll_reports_incdec",
                },
                1,
            );
            self.judge_report(c, cur, r, &mut six_status, &mut cur6_in14, &format!("feed({})", ev.render()), rep, path);
        }
        // slot discipline
        match (&outs[0], &outs[1]) {
            (None, Some(_)) => crate::viol!(rep, 
                "C14:second-message-without-first",
                format!("feed({}) returned {:?}", ev.render(), outs),
                self.hj(path, json!("never [None, Some]"), json!(format!("{:?}", outs))),
            ),
            (Some(x), Some(y)) => {
                rep.count("poll_double_reports", 1);
                let incdec = matches!(cur, Some((96 | 97, _)));
                if !(incdec && x.dt == 0 && !x.is14 && y.dt != 0) {
                    crate::viol!(rep, 
                        "C14:two-messages-not-justified",
                        format!("feed({}) returned two messages {:?}", ev.render(), outs),
                        self.hj(path, json!("two messages only for inc/dec after a pending MSB: data entry first, then inc/dec"), json!(format!("{:?}", outs))),
                    );
                }
            }
            _ => {}
        }
        // no loss: a controller-6 byte received with a complete number is reported no later than
        // the next contributing message on its channel
        if contributing {
            if let Some(p) = pre.pending() {
                if six_status == Some(0) {
                    crate::viol!(rep, 
                        "C14:data-entry-lost",
                        format!(
                            "controller-6 value {} (received with a complete number, never reported) is still unreported after the contributing message {}",
                            p.val,
                            ev.render()
                        ),
                        self.hj(path, json!(format!("7-bit or 14-bit report involving controller-6 value {}", p.val)), json!(format!("{:?}", outs))),
                    );
                    // count it as lost only once
                    six_status = Some(1);
                }
            }
        }
        // update the observer with the current message
        let complete = pre.number().is_some();
        let o = &mut self.obs[c as usize];
        if let (Some(s), Some(st)) = (o.last6.as_mut(), six_status) {
            s.status = st;
        }
        if let Some((n, v)) = cur {
            match n {
                98 | 100 => {
                    o.lsb = Some(v);
                    o.registered = n == 100;
                }
                99 | 101 => {
                    o.msb = Some(v);
                    o.registered = n == 101;
                }
                38 => {
                    o.last38 = Some((v, self.now));
                    o.last_value_t = Some(self.now);
                }
                6 => {
                    o.last6 = Some(Six {
                        val: v,
                        t: self.now,
                        complete,
                        status: if cur6_in14 { 2 } else { 0 },
                    });
                    o.last_value_t = Some(self.now);
                }
                _ => {}
            }
        }
        outs
    }

    fn poll(&mut self, c: u8, rep: &mut Report, path: &dyn Fn() -> Vec<String>) -> Option<PnM> {
        set_mock_time(self.now);
        let before = self.real;
        let real = &mut self.real;
        let got = api("PollingParameterNumberMessageScanner::poll", || real.poll(ch(c)));
        rep.count("poll_polls", 1);
        let Some(got) = got else {
            crate::viol!(rep, 
                "C13:panic:poll",
                format!("poll({}) panicked", c),
                self.hj(path, json!("no panic"), json!("panic")),
            );
            return None;
        };
        let r = got.as_ref().map(pnm);
        let pre = self.obs[c as usize];
        let pending = pre.pending();
        match &r {
            Some(r) => {
                rep.count("poll_reports_7bit_by_poll", 1);
                let mut six_status = pre.last6.map(|s| s.status);
                let mut dummy = false;
                // C13-P1
                match pending {
                    None => crate::viol!(rep, 
                        "C13:poll-reports-without-pending-msb",
                        format!("poll({}) returned {:?} although no data entry MSB is pending", c, r),
                        self.hj(path, json!("None"), r.json()),
                    ),
                    Some(p) => {
                        if !self.expired(p.t) {
                            crate::viol!(rep, 
                                "C13:poll-reports-before-timeout",
                                format!("poll({}) returned {:?} only {} ns after the MSB was fed (timeout {} ns)", c, r, self.now - p.t, self.timeout),
                                self.hj(path, json!("None"), r.json()),
                            );
                        }
                        if r.dt != 0 || r.is14 || r.value != p.val as u16 {
                            crate::viol!(rep, 
                                "C13:poll-reports-wrong-message",
                                format!("poll({}) returned {:?}, the pending MSB is {}", c, r, p.val),
                                self.hj(path, json!(format!("7-bit data entry {}", p.val)), r.json()),
                            );
                        }
                    }
                }
                if r.dt != 0 || r.is14 {
                    crate::viol!(rep, 
                        "C14:poll-reports-non-7bit",
                        format!("poll({}) returned {:?}", c, r),
                        self.hj(path, json!("7-bit data entry or nothing"), r.json()),
                    );
                } else {
                    self.judge_report(c, None, r, &mut six_status, &mut dummy, &format!("poll({})", c), rep, path);
                }
                if let (Some(s), Some(st)) = (self.obs[c as usize].last6.as_mut(), six_status) {
                    s.status = st;
                }
            }
            None => {
                if let Some(p) = pending {
                    if self.expired(p.t) {
                        rep.count("poll_missed", 1);
                        crate::viol!(rep, 
                            "C13:poll-misses-expired-msb",
                            format!("poll({}) returned nothing although data entry MSB {} has been pending for {} ns (timeout {} ns)", c, p.val, self.now - p.t, self.timeout),
                            self.hj(path, json!(format!("7-bit data entry {}", p.val)), json!("None")),
                        );
                        crate::viol!(rep, 
                            "C14:data-entry-lost:poll",
                            format!("controller-6 value {} not reported by the first poll after the timeout", p.val),
                            self.hj(path, json!(format!("7-bit data entry {}", p.val)), json!("None")),
                        );
                        if let Some(s) = self.obs[c as usize].last6.as_mut() {
                            s.status = 1;
                        }
                    }
                }
                // P4: a poll before the timeout has no effect
                if let Some(t) = pre.last_value_t {
                    if !self.expired(t) {
                        rep.count("poll_early_polls", 1);
                        if self.real != before {
                            crate::viol!(rep, 
                                "C13:early-poll-has-effect",
                                format!("poll({}) {} ns after the most recent value byte (timeout {} ns) returned nothing but changed the scanner state", c, self.now - t, self.timeout),
                                self.hj(path, json!("equal state"), json!("state changed")),
                            );
                        }
                    } else {
                        rep.count("poll_late_polls_returning_nothing", 1);
                    }
                }
            }
        }
        r
    }

    /// canonical key: Debug rendering of the real scanner with every arrival instant replaced by
    /// its age class, plus the observer with the same normalisation.
    pub fn key_into(&self, buf: &mut Vec<u8>, scratch: &mut String) {
        debug_into(&self.real, scratch);
        normalise_instants(scratch.as_bytes(), self.now, self.age_cap, buf);
        let age = |t: u64| -> u8 { ((self.now - t).min(self.age_cap) / (self.age_cap.max(1) / 4).max(1)).min(250) as u8 };
        // exact age classes: ages are multiples of the explorer's tick; keep the capped age itself
        let agev = |t: u64| -> [u8; 8] { age_class(self.now - t, self.age_cap).to_le_bytes() };
        let _ = age;
        for o in self.obs.iter() {
            buf.extend_from_slice(&[
                o.msb.map(|v| v + 1).unwrap_or(0),
                o.lsb.map(|v| v + 1).unwrap_or(0),
                o.registered as u8,
            ]);
            match o.last6 {
                None => buf.push(0),
                Some(s) => {
                    buf.extend_from_slice(&[1, s.val, s.complete as u8, s.status]);
                    buf.extend_from_slice(&agev(s.t));
                }
            }
            match o.last38 {
                None => buf.push(0),
                Some((v, t)) => {
                    buf.extend_from_slice(&[1, v]);
                    buf.extend_from_slice(&agev(t));
                }
            }
            match o.last_value_t {
                None => buf.push(0),
                Some(t) => {
                    buf.push(1);
                    buf.extend_from_slice(&agev(t));
                }
            }
        }
    }
}

/// Rewrites every `Instant(<n>ns)` in a Debug rendering to `age(<min(now-n,cap)>)`.
pub fn normalise_instants(src: &[u8], now: u64, cap: u64, out: &mut Vec<u8>) {
    const PAT: &[u8] = b"Instant(";
    let mut i = 0;
    while i < src.len() {
        if src[i] == b'I' && src[i..].starts_with(PAT) {
            let mut j = i + PAT.len();
            let mut n: u64 = 0;
            while j < src.len() && src[j].is_ascii_digit() {
                n = n.wrapping_mul(10).wrapping_add((src[j] - b'0') as u64);
                j += 1;
            }
            // skip "ns)"
            while j < src.len() && src[j] != b')' {
                j += 1;
            }
            j += 1;
            let age = age_class(now.saturating_sub(n), cap);
            out.extend_from_slice(b"age(");
            out.extend_from_slice(age.to_string().as_bytes());
            out.push(b')');
            i = j;
        } else {
            out.push(src[i]);
            i += 1;
        }
    }
}

impl crate::explore::Sys for PollMon {
    type Sym = Ev;
    fn key(&self, buf: &mut Vec<u8>, scratch: &mut String) {
        self.key_into(buf, scratch)
    }
    fn step(&mut self, sym: &Ev, rep: &mut Report, path: &dyn Fn() -> Vec<String>) {
        self.apply(sym, rep, path);
    }
    fn render(sym: &Ev) -> String {
        sym.render()
    }
}
