//! Runtime monitors that watch every call into helgoboss-midi made by any workload:
//!
//! * a counting global allocator (per-thread counters) -> allocation monitor (C18),
//! * a silent panic hook + catch_unwind -> panic monitor (C18, and every other property:
//!   an unexpected panic means the API did not return what the statement requires),
//! * the range observer: every restricted integer that crosses the API boundary must
//!   satisfy `get() <= MAX` (C04),
//! * per-entry-point call counters (coverage evidence).
//!
//! All monitor state is thread-local; worker threads hand their state back at join.

use std::alloc::{GlobalAlloc, Layout, System};
use std::cell::{Cell, RefCell};
use std::collections::BTreeMap;
use std::panic::{self, AssertUnwindSafe};

// ---------------------------------------------------------------- allocator

pub struct CountingAlloc;

thread_local! {
    static ALLOC_CALLS: Cell<u64> = const { Cell::new(0) };
    static ALLOC_BYTES: Cell<u64> = const { Cell::new(0) };
}

#[inline]
fn note_alloc(size: usize) {
    let _ = ALLOC_CALLS.try_with(|c| c.set(c.get() + 1));
    let _ = ALLOC_BYTES.try_with(|c| c.set(c.get() + size as u64));
}

unsafe impl GlobalAlloc for CountingAlloc {
    unsafe fn alloc(&self, layout: Layout) -> *mut u8 {
        note_alloc(layout.size());
        System.alloc(layout)
    }
    unsafe fn alloc_zeroed(&self, layout: Layout) -> *mut u8 {
        note_alloc(layout.size());
        System.alloc_zeroed(layout)
    }
    unsafe fn realloc(&self, ptr: *mut u8, layout: Layout, new_size: usize) -> *mut u8 {
        note_alloc(new_size);
        System.realloc(ptr, layout, new_size)
    }
    unsafe fn dealloc(&self, ptr: *mut u8, layout: Layout) {
        System.dealloc(ptr, layout)
    }
}

#[inline]
pub fn alloc_calls() -> u64 {
    ALLOC_CALLS.with(|c| c.get())
}
#[inline]
pub fn alloc_bytes() -> u64 {
    ALLOC_BYTES.with(|c| c.get())
}

// ---------------------------------------------------------------- hits

#[derive(Clone, Debug, PartialEq, Eq)]
pub enum HitKind {
    Alloc,
    Panic,
    Range,
}

#[derive(Clone, Debug)]
pub struct Hit {
    pub kind: HitKind,
    pub entry: &'static str,
    pub detail: String,
    pub case: String,
}

#[derive(Default)]
pub struct Ctx {
    pub calls: BTreeMap<&'static str, u64>,
    pub hits: Vec<Hit>,
    pub hits_total: u64,
    pub regions: u64,
    pub alloc_calls_in_regions: u64,
    pub alloc_bytes_in_regions: u64,
    pub expected_panics: BTreeMap<&'static str, u64>,
    pub range_values_checked: u64,
}

impl Ctx {
    pub fn merge(&mut self, o: Ctx) {
        for (k, v) in o.calls {
            *self.calls.entry(k).or_insert(0) += v;
        }
        for h in o.hits {
            if self.hits.len() < 2000 {
                self.hits.push(h);
            }
        }
        self.hits_total += o.hits_total;
        self.regions += o.regions;
        self.alloc_calls_in_regions += o.alloc_calls_in_regions;
        self.alloc_bytes_in_regions += o.alloc_bytes_in_regions;
        for (k, v) in o.expected_panics {
            *self.expected_panics.entry(k).or_insert(0) += v;
        }
        self.range_values_checked += o.range_values_checked;
    }
}

thread_local! {
    static CTX: RefCell<Ctx> = RefCell::new(Ctx::default());
    static IN_REGION: Cell<bool> = const { Cell::new(false) };
    static LAST_PANIC: RefCell<String> = const { RefCell::new(String::new()) };
    // current case descriptor (cheap to set in hot loops)
    static CASE_KIND: Cell<&'static str> = const { Cell::new("") };
    static CASE_NUMS: Cell<[i64; 6]> = const { Cell::new([0; 6]) };
    static RANGE_BAD: Cell<u32> = const { Cell::new(0) };
    static RANGE_SEEN: Cell<u64> = const { Cell::new(0) };
    // fast path call counters, indexed by interned entry id
    static FAST_CALLS: RefCell<Vec<(&'static str, u64)>> = const { RefCell::new(Vec::new()) };
}

pub fn take_ctx() -> Ctx {
    let mut ctx = CTX.with(|c| std::mem::take(&mut *c.borrow_mut()));
    ctx.range_values_checked += RANGE_SEEN.with(|c| c.replace(0));
    FAST_CALLS.with(|f| {
        for (k, v) in f.borrow_mut().drain(..) {
            *ctx.calls.entry(k).or_insert(0) += v;
        }
    });
    ctx
}

pub fn put_ctx(ctx: Ctx) {
    CTX.with(|c| c.borrow_mut().merge(ctx));
}

#[inline]
pub fn set_case(kind: &'static str, nums: [i64; 6]) {
    CASE_KIND.with(|c| c.set(kind));
    CASE_NUMS.with(|c| c.set(nums));
}

pub fn case_string() -> String {
    let k = CASE_KIND.with(|c| c.get());
    let n = CASE_NUMS.with(|c| c.get());
    format!("{}{:?}", k, n)
}

/// In the panic=abort build a panic ends the process: calls that are *expected* to panic are
/// not made there (every other call still is; a panic then is a violation by itself).
pub const ABORT_BUILD: bool = cfg!(panic = "abort");

pub fn install_panic_hook() {
    let default = panic::take_hook();
    panic::set_hook(Box::new(move |info| {
        if IN_REGION.with(|r| r.get()) {
            let msg = if let Some(s) = info.payload().downcast_ref::<&str>() {
                (*s).to_string()
            } else if let Some(s) = info.payload().downcast_ref::<String>() {
                s.clone()
            } else {
                "<non-string panic>".to_string()
            };
            let loc = info
                .location()
                .map(|l| format!("{}:{}", l.file(), l.line()))
                .unwrap_or_default();
            // with panic = abort the process ends here: leave a marker for the driver
            #[cfg(panic = "abort")]
            eprintln!("VCHECK-ABORT-PANIC {} @ {} [case {}]", msg, loc, case_string());
            LAST_PANIC.with(|p| *p.borrow_mut() = format!("{} @ {}", msg, loc));
        } else {
            default(info);
        }
    }));
}

fn record_hit(kind: HitKind, entry: &'static str, detail: String) {
    let case = case_string();
    CTX.with(|c| {
        let mut c = c.borrow_mut();
        c.hits_total += 1;
        if c.hits.len() < 200 {
            c.hits.push(Hit {
                kind,
                entry,
                detail,
                case,
            });
        }
    });
}

#[inline]
fn count_call(entry: &'static str) {
    FAST_CALLS.with(|f| {
        let mut f = f.borrow_mut();
        // tiny linear table with move-to-front: entry names are &'static str, compare by pointer first
        for i in 0..f.len() {
            if std::ptr::eq(f[i].0.as_ptr(), entry.as_ptr()) && f[i].0.len() == entry.len() {
                f[i].1 += 1;
                if i > 4 {
                    f.swap(i, i / 2);
                }
                return;
            }
        }
        f.push((entry, 1));
    });
}

/// Result of an API region.
pub enum ApiErr {
    Panicked(String),
}

/// Runs one API region that is expected to return normally (valid input).
/// * counts the call, * checks that no heap allocation happened inside, * catches panics
/// (recorded as Panic hit), * passes the result through the range observer.
/// Returns None if the call panicked (the hit is already recorded).
#[inline]
pub fn api<T: Observe>(entry: &'static str, f: impl FnOnce() -> T) -> Option<T> {
    count_call(entry);
    IN_REGION.with(|r| r.set(true));
    let a0 = alloc_calls();
    let b0 = alloc_bytes();
    let r = panic::catch_unwind(AssertUnwindSafe(f));
    let a1 = alloc_calls();
    let b1 = alloc_bytes();
    IN_REGION.with(|r| r.set(false));
    match r {
        Ok(v) => {
            if a1 != a0 {
                CTX.with(|c| {
                    let mut c = c.borrow_mut();
                    c.alloc_calls_in_regions += a1 - a0;
                    c.alloc_bytes_in_regions += b1 - b0;
                });
                record_hit(
                    HitKind::Alloc,
                    entry,
                    format!("{} allocation(s), {} bytes inside API region", a1 - a0, b1 - b0),
                );
            }
            RANGE_BAD.with(|c| c.set(0));
            v.observe();
            if RANGE_BAD.with(|c| c.get()) != 0 {
                record_hit(
                    HitKind::Range,
                    entry,
                    format!("out-of-range restricted integer in result: {}", v.describe()),
                );
            }
            Some(v)
        }
        Err(_) => {
            let msg = LAST_PANIC.with(|p| p.borrow().clone());
            record_hit(HitKind::Panic, entry, msg);
            None
        }
    }
}

/// Runs an API region whose panic behaviour is being probed (documented panics). No hit is
/// recorded automatically; the caller's oracle decides. Result values still pass the range
/// observer, and a *non-panicking* probe is checked for allocations like any other region.
#[inline]
pub fn api_probe<T: Observe>(entry: &'static str, f: impl FnOnce() -> T) -> Result<T, String> {
    count_call(entry);
    IN_REGION.with(|r| r.set(true));
    let a0 = alloc_calls();
    let b0 = alloc_bytes();
    let r = panic::catch_unwind(AssertUnwindSafe(f));
    let a1 = alloc_calls();
    let b1 = alloc_bytes();
    IN_REGION.with(|r| r.set(false));
    match r {
        Ok(v) => {
            if a1 != a0 {
                CTX.with(|c| {
                    let mut c = c.borrow_mut();
                    c.alloc_calls_in_regions += a1 - a0;
                    c.alloc_bytes_in_regions += b1 - b0;
                });
                record_hit(
                    HitKind::Alloc,
                    entry,
                    format!("{} allocation(s), {} bytes inside API region", a1 - a0, b1 - b0),
                );
            }
            RANGE_BAD.with(|c| c.set(0));
            v.observe();
            if RANGE_BAD.with(|c| c.get()) != 0 {
                record_hit(
                    HitKind::Range,
                    entry,
                    format!("out-of-range restricted integer in result: {}", v.describe()),
                );
            }
            Ok(v)
        }
        Err(_) => Err(LAST_PANIC.with(|p| p.borrow().clone())),
    }
}

pub fn note_expected_panic(entry: &'static str) {
    CTX.with(|c| *c.borrow_mut().expected_panics.entry(entry).or_insert(0) += 1);
}

pub fn note_region() {
    CTX.with(|c| c.borrow_mut().regions += 1);
}

// ---------------------------------------------------------------- range observer

/// Implemented for everything an API call can return. `observe` flags (via RANGE_BAD) every
/// restricted integer whose value exceeds its documented maximum.
pub trait Observe {
    fn observe(&self);
    fn describe(&self) -> String {
        String::from("<value>")
    }
}

#[inline]
pub fn range_check(v: u32, max: u32) {
    RANGE_SEEN.with(|c| c.set(c.get() + 1));
    if v > max {
        RANGE_BAD.with(|c| c.set(c.get() + 1));
    }
}

macro_rules! observe_noop {
    ($($t:ty),*) => { $( impl Observe for $t { #[inline] fn observe(&self) {} } )* };
}
observe_noop!(
    (), bool, u8, i8, u16, i16, u32, i32, u64, i64, u128, i128, usize, isize, String,
    std::cmp::Ordering
);

impl<T: Observe> Observe for Option<T> {
    #[inline]
    fn observe(&self) {
        if let Some(v) = self {
            v.observe()
        }
    }
    fn describe(&self) -> String {
        match self {
            Some(v) => format!("Some({})", v.describe()),
            None => "None".into(),
        }
    }
}
impl<T: Observe, E> Observe for Result<T, E> {
    #[inline]
    fn observe(&self) {
        if let Ok(v) = self {
            v.observe()
        }
    }
    fn describe(&self) -> String {
        match self {
            Ok(v) => format!("Ok({})", v.describe()),
            Err(_) => "Err".into(),
        }
    }
}
impl<T: Observe, const N: usize> Observe for [T; N] {
    #[inline]
    fn observe(&self) {
        for v in self {
            v.observe()
        }
    }
    fn describe(&self) -> String {
        let v: Vec<String> = self.iter().map(|x| x.describe()).collect();
        format!("[{}]", v.join(", "))
    }
}
macro_rules! observe_tuple {
    ($($n:ident : $i:tt),+) => {
        impl<$($n: Observe),+> Observe for ($($n,)+) {
            #[inline]
            fn observe(&self) { $( self.$i.observe(); )+ }
            fn describe(&self) -> String {
                let v: Vec<String> = vec![$( self.$i.describe() ),+];
                format!("({})", v.join(", "))
            }
        }
    };
}
observe_tuple!(A:0, B:1);
observe_tuple!(A:0, B:1, C:2);
observe_tuple!(A:0, B:1, C:2, D:3);
observe_tuple!(A:0, B:1, C:2, D:3, E:4);
observe_tuple!(A:0, B:1, C:2, D:3, E:4, F:5);
observe_tuple!(A:0, B:1, C:2, D:3, E:4, F:5, G:6);
observe_tuple!(A:0, B:1, C:2, D:3, E:4, F:5, G:6, H:7);
observe_tuple!(A:0, B:1, C:2, D:3, E:4, F:5, G:6, H:7, I:8);
observe_tuple!(A:0, B:1, C:2, D:3, E:4, F:5, G:6, H:7, I:8, J:9);
