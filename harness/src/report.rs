//! Result accumulation: what a run explored, what the monitors observed, violations found.

use serde_json::{json, Map, Value};

/// records a violation; description and replay expressions are evaluated only when stored
#[macro_export]
macro_rules! viol {
    ($rep:expr, $sig:expr, $desc:expr, $replay:expr $(,)?) => {{
        let __sig: String = ($sig).into();
        if $rep.note(&__sig) {
            let __d: String = ($desc).into();
            let __r = $replay;
            $rep.push_violation(__sig, __d, __r);
        }
    }};
}
use std::collections::BTreeMap;

#[derive(Clone, Debug)]
pub struct Violation {
    pub sig: String,
    pub desc: String,
    pub replay: Value,
}

#[derive(Default)]
pub struct Report {
    pub evaluations: u64,
    pub distinct_nontrivial: u64,
    pub rules: Vec<String>,
    pub samples: Vec<Value>,
    pub exhaustive: bool,
    pub exhaustive_set: bool,
    pub counters: BTreeMap<String, u64>,
    pub notes: BTreeMap<String, Value>,
    pub violations: Vec<Violation>,
    pub violations_total: u64,
    pub sig_counts: BTreeMap<String, u64>,
    pub inconclusive: Vec<String>,
    pub assumptions: Vec<String>,
    pub states: u64,
    pub transitions: u64,
}

impl Report {
    pub fn new() -> Self {
        Self::default()
    }

    pub fn count(&mut self, key: &str, n: u64) {
        if let Some(v) = self.counters.get_mut(key) {
            *v += n;
        } else {
            self.counters.insert(key.to_string(), n);
        }
    }

    pub fn max(&mut self, key: &str, n: u64) {
        let e = self.counters.entry(key.to_string()).or_insert(0);
        if n > *e {
            *e = n;
        }
    }

    pub fn rule(&mut self, r: &str) {
        if !self.rules.iter().any(|x| x == r) {
            self.rules.push(r.to_string());
        }
    }

    pub fn assume(&mut self, r: &str) {
        if !self.assumptions.iter().any(|x| x == r) {
            self.assumptions.push(r.to_string());
        }
    }

    pub fn sample(&mut self, v: Value) {
        if self.samples.len() < 12 {
            self.samples.push(v);
        }
    }

    /// Marks (part of) the run as exhaustive; the run is exhaustive only if every part said so.
    pub fn set_exhaustive(&mut self, e: bool) {
        if !self.exhaustive_set {
            self.exhaustive = e;
            self.exhaustive_set = true;
        } else {
            self.exhaustive = self.exhaustive && e;
        }
    }

    /// counts one violation of `sig`; returns true when its details should be stored (only the
    /// first two witnesses per signature are kept, so that description/replay rendering — which
    /// may be long — is not repeated millions of times on a badly broken tree)
    pub fn note(&mut self, sig: &str) -> bool {
        self.violations_total += 1;
        let n = match self.sig_counts.get_mut(sig) {
            Some(n) => n,
            None => self.sig_counts.entry(sig.to_string()).or_insert(0),
        };
        *n += 1;
        *n <= 2 && self.violations.len() < 400
    }

    pub fn push_violation(&mut self, sig: String, desc: String, replay: Value) {
        self.violations.push(Violation { sig, desc, replay });
    }

    /// number of violations recorded so far whose signature belongs to property `pid`
    pub fn own_violations(&self, pid: &str) -> u64 {
        let pre = format!("{}:", pid);
        self.sig_counts.iter().filter(|(k, _)| k.starts_with(&pre)).map(|(_, v)| *v).sum()
    }

    #[allow(clippy::too_many_arguments)]
    pub fn violation_p5_late(
        &mut self,
        ev: &crate::scan::Ev,
        now: u64,
        delta: u64,
        a: Option<crate::scan::PnM>,
        b: Option<crate::scan::PnM>,
        timeout: u64,
        path: &dyn Fn() -> Vec<String>,
    ) {
        crate::viol!(
            self,
            "C13:feed-effect-depends-on-time",
            format!(
                "after feed({}) at t={} a very late poll returned {:?}, but {:?} when the same scanner state was fed {} ns later (the passage of time changed what the feed did)",
                ev.render(), now, a, b, delta
            ),
            crate::scan::history_json("polling", Some(timeout), path, json!(format!("{:?}", a)), json!(format!("{:?}", b)))
        );
    }

    pub fn inconclusive(&mut self, why: impl Into<String>) {
        let w = why.into();
        if !self.inconclusive.contains(&w) {
            self.inconclusive.push(w);
        }
    }

    pub fn merge(&mut self, o: Report) {
        self.evaluations += o.evaluations;
        self.distinct_nontrivial += o.distinct_nontrivial;
        for r in o.rules {
            self.rule(&r);
        }
        for s in o.samples {
            self.sample(s);
        }
        if o.exhaustive_set {
            self.set_exhaustive(o.exhaustive);
        }
        for (k, v) in o.counters {
            if k.starts_with("max_") {
                self.max(&k, v);
            } else {
                self.count(&k, v);
            }
        }
        for (k, v) in o.notes {
            self.notes.insert(k, v);
        }
        self.violations_total += o.violations_total;
        for (k, v) in o.sig_counts {
            *self.sig_counts.entry(k).or_insert(0) += v;
        }
        for v in o.violations {
            let have = self.violations.iter().filter(|x| x.sig == v.sig).count();
            if have < 2 && self.violations.len() < 400 {
                self.violations.push(v);
            }
        }
        for i in o.inconclusive {
            self.inconclusive(i);
        }
        for a in o.assumptions {
            self.assume(&a);
        }
        self.states += o.states;
        self.transitions += o.transitions;
    }

    pub fn to_json(&self) -> Value {
        let mut m = Map::new();
        m.insert("evaluations".into(), json!(self.evaluations));
        m.insert("distinct_nontrivial".into(), json!(self.distinct_nontrivial));
        m.insert("rules".into(), json!(self.rules));
        m.insert("samples".into(), json!(self.samples));
        m.insert("exhaustive".into(), json!(self.exhaustive_set && self.exhaustive));
        m.insert("counters".into(), json!(self.counters));
        m.insert("notes".into(), json!(self.notes));
        m.insert("states".into(), json!(self.states));
        m.insert("transitions".into(), json!(self.transitions));
        m.insert("violations_total".into(), json!(self.violations_total));
        m.insert("sig_counts".into(), json!(self.sig_counts));
        m.insert(
            "violations".into(),
            Value::Array(
                self.violations
                    .iter()
                    .map(|v| json!({"sig": v.sig, "desc": v.desc, "replay": v.replay}))
                    .collect(),
            ),
        );
        m.insert("inconclusive".into(), json!(self.inconclusive));
        m.insert("assumptions".into(), json!(self.assumptions));
        Value::Object(m)
    }
}
