//! Independent reference tables written from the MIDI 1.0 specification and the property
//! statements (never copied from the code under test), plus helpers to build crate values
//! from plain numbers through the safe public API.

use helgoboss_midi::*;

// ---- value builders (safe public API only)
#[inline]
pub fn u7(v: u8) -> U7 {
    U7::new(v)
}
#[inline]
pub fn u4(v: u8) -> U4 {
    U4::new(v)
}
#[inline]
pub fn u14(v: u16) -> U14 {
    U14::new(v)
}
#[inline]
pub fn ch(v: u8) -> Channel {
    Channel::new(v)
}
#[inline]
pub fn kn(v: u8) -> KeyNumber {
    KeyNumber::new(v)
}
#[inline]
pub fn cn(v: u8) -> ControllerNumber {
    ControllerNumber::new(v)
}

/// The 23 message types of MIDI 1.0 short messages: (type byte, crate variant, name)
pub const TYPES: [(u8, ShortMessageType, &str); 23] = [
    (0x80, ShortMessageType::NoteOff, "NoteOff"),
    (0x90, ShortMessageType::NoteOn, "NoteOn"),
    (0xA0, ShortMessageType::PolyphonicKeyPressure, "PolyphonicKeyPressure"),
    (0xB0, ShortMessageType::ControlChange, "ControlChange"),
    (0xC0, ShortMessageType::ProgramChange, "ProgramChange"),
    (0xD0, ShortMessageType::ChannelPressure, "ChannelPressure"),
    (0xE0, ShortMessageType::PitchBendChange, "PitchBendChange"),
    (0xF0, ShortMessageType::SystemExclusiveStart, "SystemExclusiveStart"),
    (0xF1, ShortMessageType::TimeCodeQuarterFrame, "TimeCodeQuarterFrame"),
    (0xF2, ShortMessageType::SongPositionPointer, "SongPositionPointer"),
    (0xF3, ShortMessageType::SongSelect, "SongSelect"),
    (0xF4, ShortMessageType::SystemCommonUndefined1, "SystemCommonUndefined1"),
    (0xF5, ShortMessageType::SystemCommonUndefined2, "SystemCommonUndefined2"),
    (0xF6, ShortMessageType::TuneRequest, "TuneRequest"),
    (0xF7, ShortMessageType::SystemExclusiveEnd, "SystemExclusiveEnd"),
    (0xF8, ShortMessageType::TimingClock, "TimingClock"),
    (0xF9, ShortMessageType::SystemRealTimeUndefined1, "SystemRealTimeUndefined1"),
    (0xFA, ShortMessageType::Start, "Start"),
    (0xFB, ShortMessageType::Continue, "Continue"),
    (0xFC, ShortMessageType::Stop, "Stop"),
    (0xFD, ShortMessageType::SystemRealTimeUndefined2, "SystemRealTimeUndefined2"),
    (0xFE, ShortMessageType::ActiveSensing, "ActiveSensing"),
    (0xFF, ShortMessageType::SystemReset, "SystemReset"),
];

/// Type byte determined by the status byte alone: high nibble below 0xF0, whole byte above.
#[inline]
pub fn type_byte(status: u8) -> Option<u8> {
    if status < 0x80 {
        None
    } else if status < 0xF0 {
        Some(status & 0xF0)
    } else {
        Some(status)
    }
}

pub fn type_of(status: u8) -> Option<ShortMessageType> {
    let tb = type_byte(status)?;
    TYPES.iter().find(|t| t.0 == tb).map(|t| t.1)
}

pub fn type_name(status: u8) -> &'static str {
    match type_byte(status) {
        Some(tb) => TYPES.iter().find(|t| t.0 == tb).map(|t| t.2).unwrap_or("?"),
        None => "invalid",
    }
}

#[derive(Copy, Clone, PartialEq, Eq, Debug)]
pub enum Super {
    ChannelVoice,
    ChannelMode,
    SystemCommon,
    SystemRealTime,
    SystemExclusive,
}

/// MIDI 1.0 table 1: super type of a message.
pub fn super_of(status: u8, d1: u8) -> Super {
    match status {
        0x80..=0xEF => {
            if status & 0xF0 == 0xB0 && (120..=127).contains(&d1) {
                Super::ChannelMode
            } else {
                Super::ChannelVoice
            }
        }
        0xF0 => Super::SystemExclusive,
        0xF1..=0xF7 => Super::SystemCommon,
        0xF8..=0xFF => Super::SystemRealTime,
        _ => unreachable!("invalid status"),
    }
}

pub fn super_matches(s: Super, m: MessageSuperType) -> bool {
    matches!(
        (s, m),
        (Super::ChannelVoice, MessageSuperType::ChannelVoice)
            | (Super::ChannelMode, MessageSuperType::ChannelMode)
            | (Super::SystemCommon, MessageSuperType::SystemCommon)
            | (Super::SystemRealTime, MessageSuperType::SystemRealTime)
            | (Super::SystemExclusive, MessageSuperType::SystemExclusive)
    )
}

pub fn fuzzy_matches(status: u8, f: FuzzyMessageSuperType) -> bool {
    match status {
        0x80..=0xEF => f == FuzzyMessageSuperType::Channel,
        0xF0 => f == FuzzyMessageSuperType::SystemExclusive,
        0xF1..=0xF7 => f == FuzzyMessageSuperType::SystemCommon,
        _ => f == FuzzyMessageSuperType::SystemRealTime,
    }
}

#[inline]
pub fn is_channel_status(status: u8) -> bool {
    (0x80..0xF0).contains(&status)
}

/// Which data bytes carry information for a given status byte: (d1 used, d2 used).
#[inline]
pub fn used_bytes(status: u8) -> (bool, bool) {
    match status {
        0x80..=0xBF => (true, true),
        0xC0..=0xDF => (true, false),
        0xE0..=0xEF => (true, true),
        0xF1 => (true, false),
        0xF2 => (true, true),
        0xF3 => (true, false),
        _ => (false, false),
    }
}

/// Canonical form reported by StructuredShortMessage: information-free parts zeroed.
#[inline]
pub fn canon(status: u8, d1: u8, d2: u8) -> (u8, u8, u8) {
    let (u1, u2) = used_bytes(status);
    let mut c1 = if u1 { d1 } else { 0 };
    let c2 = if u2 { d2 } else { 0 };
    if status == 0xF1 && (c1 >> 4) == 7 {
        // reserved bit of the 'last' quarter frame
        c1 &= !0x08;
    }
    (status, c1, c2)
}

/// The quarter frame denoted by data byte 1 of a 0xF1 message (MIDI time code spec).
pub fn quarter_frame(d1: u8) -> TimeCodeQuarterFrame {
    let lo = u4(d1 & 0x0F);
    match d1 >> 4 {
        0 => TimeCodeQuarterFrame::FrameCountLsNibble(lo),
        1 => TimeCodeQuarterFrame::FrameCountMsNibble(lo),
        2 => TimeCodeQuarterFrame::SecondsCountLsNibble(lo),
        3 => TimeCodeQuarterFrame::SecondsCountMsNibble(lo),
        4 => TimeCodeQuarterFrame::MinutesCountLsNibble(lo),
        5 => TimeCodeQuarterFrame::MinutesCountMsNibble(lo),
        6 => TimeCodeQuarterFrame::HoursCountLsNibble(lo),
        _ => TimeCodeQuarterFrame::Last {
            hours_count_ms_bit: d1 & 1 == 1,
            time_code_type: match (d1 >> 1) & 3 {
                0 => TimeCodeType::Fps24,
                1 => TimeCodeType::Fps25,
                2 => TimeCodeType::Fps30DropFrame,
                _ => TimeCodeType::Fps30NonDrop,
            },
        },
    }
}

/// All 120 quarter frames with the data byte each one denotes.
pub fn all_quarter_frames() -> Vec<(u8, TimeCodeQuarterFrame)> {
    let mut v = Vec::new();
    for d1 in 0u8..128 {
        if d1 >> 4 == 7 && d1 & 0x08 != 0 {
            continue;
        }
        v.push((d1, quarter_frame(d1)));
    }
    v
}

/// The structured value a valid byte triple denotes (enum literal built from the fields).
pub fn structured_of(status: u8, d1: u8, d2: u8) -> StructuredShortMessage {
    use StructuredShortMessage as S;
    let c = ch(status & 0x0F);
    let v14 = u14((d2 as u16) * 128 + d1 as u16);
    match status {
        0x80..=0x8F => S::NoteOff {
            channel: c,
            key_number: kn(d1),
            velocity: u7(d2),
        },
        0x90..=0x9F => S::NoteOn {
            channel: c,
            key_number: kn(d1),
            velocity: u7(d2),
        },
        0xA0..=0xAF => S::PolyphonicKeyPressure {
            channel: c,
            key_number: kn(d1),
            pressure_amount: u7(d2),
        },
        0xB0..=0xBF => S::ControlChange {
            channel: c,
            controller_number: cn(d1),
            control_value: u7(d2),
        },
        0xC0..=0xCF => S::ProgramChange {
            channel: c,
            program_number: u7(d1),
        },
        0xD0..=0xDF => S::ChannelPressure {
            channel: c,
            pressure_amount: u7(d1),
        },
        0xE0..=0xEF => S::PitchBendChange {
            channel: c,
            pitch_bend_value: v14,
        },
        0xF0 => S::SystemExclusiveStart,
        0xF1 => S::TimeCodeQuarterFrame(quarter_frame(d1)),
        0xF2 => S::SongPositionPointer { position: v14 },
        0xF3 => S::SongSelect { song_number: u7(d1) },
        0xF4 => S::SystemCommonUndefined1,
        0xF5 => S::SystemCommonUndefined2,
        0xF6 => S::TuneRequest,
        0xF7 => S::SystemExclusiveEnd,
        0xF8 => S::TimingClock,
        0xF9 => S::SystemRealTimeUndefined1,
        0xFA => S::Start,
        0xFB => S::Continue,
        0xFC => S::Stop,
        0xFD => S::SystemRealTimeUndefined2,
        0xFE => S::ActiveSensing,
        0xFF => S::SystemReset,
        _ => unreachable!("invalid status byte"),
    }
}

/// Expected accessor values of a valid byte triple according to the MIDI 1.0 tables.
#[derive(Copy, Clone, PartialEq, Eq, Debug)]
pub struct Fields {
    pub type_byte: u8,
    pub channel: Option<u8>,
    pub sup: Super,
    pub is_channel: bool,
    pub key_number: Option<u8>,
    pub velocity: Option<u8>,
    pub controller_number: Option<u8>,
    pub control_value: Option<u8>,
    pub program_number: Option<u8>,
    pub pressure_amount: Option<u8>,
    pub pitch_bend_value: Option<u16>,
    pub is_note_on: bool,
    pub is_note_off: bool,
    pub is_note: bool,
}

pub fn fields_of(status: u8, d1: u8, d2: u8) -> Fields {
    let hi = status & 0xF0;
    let chan = is_channel_status(status);
    Fields {
        type_byte: type_byte(status).unwrap(),
        channel: if chan { Some(status & 0x0F) } else { None },
        sup: super_of(status, d1),
        is_channel: chan,
        key_number: if chan && matches!(hi, 0x80 | 0x90 | 0xA0) {
            Some(d1)
        } else {
            None
        },
        velocity: if chan && matches!(hi, 0x80 | 0x90) {
            Some(d2)
        } else {
            None
        },
        controller_number: if chan && hi == 0xB0 { Some(d1) } else { None },
        control_value: if chan && hi == 0xB0 { Some(d2) } else { None },
        program_number: if chan && hi == 0xC0 { Some(d1) } else { None },
        pressure_amount: if chan && hi == 0xA0 {
            Some(d2)
        } else if chan && hi == 0xD0 {
            Some(d1)
        } else {
            None
        },
        pitch_bend_value: if chan && hi == 0xE0 {
            Some(d2 as u16 * 128 + d1 as u16)
        } else {
            None
        },
        is_note_on: chan && hi == 0x90 && d2 > 0,
        is_note_off: chan && (hi == 0x80 || (hi == 0x90 && d2 == 0)),
        is_note: chan && (hi == 0x80 || hi == 0x90),
    }
}

// ---- (N)RPN / 14-bit CC controller numbers, from the MIDI 1.0 controller table
pub const CC_DATA_ENTRY_MSB: u8 = 6;
pub const CC_DATA_ENTRY_LSB: u8 = 38;
pub const CC_DATA_INC: u8 = 96;
pub const CC_DATA_DEC: u8 = 97;
pub const CC_NRPN_LSB: u8 = 98;
pub const CC_NRPN_MSB: u8 = 99;
pub const CC_RPN_LSB: u8 = 100;
pub const CC_RPN_MSB: u8 = 101;

pub fn is_pn_controller(n: u8) -> bool {
    matches!(n, 6 | 38 | 96 | 97 | 98 | 99 | 100 | 101)
}
