//! Third-party implementors of the ShortMessage traits, and the range observer's view of all
//! crate types.

use crate::mon::{range_check, Observe};
use helgoboss_midi::*;

/// A foreign implementor: stores the tuple; implements only the three byte getters and
/// `from_bytes_unchecked` (everything else comes from the trait's default methods).
#[derive(Copy, Clone, PartialEq, Eq, Debug)]
pub struct Foreign {
    pub s: u8,
    pub d1: U7,
    pub d2: U7,
    /// extra payload, as a real-world FFI struct would have (e.g. a frame offset)
    pub frame: u32,
}

impl ShortMessage for Foreign {
    fn status_byte(&self) -> u8 {
        self.s
    }
    fn data_byte_1(&self) -> U7 {
        self.d1
    }
    fn data_byte_2(&self) -> U7 {
        self.d2
    }
}

impl ShortMessageFactory for Foreign {
    unsafe fn from_bytes_unchecked(bytes: (u8, U7, U7)) -> Self {
        Foreign {
            s: bytes.0,
            d1: bytes.1,
            d2: bytes.2,
            frame: 7,
        }
    }
}

/// A second foreign implementor which additionally overrides `to_bytes`.
#[derive(Copy, Clone, PartialEq, Eq, Debug)]
pub struct ForeignBytes(pub [u8; 3]);

impl ShortMessage for ForeignBytes {
    fn status_byte(&self) -> u8 {
        self.0[0]
    }
    fn data_byte_1(&self) -> U7 {
        U7::new(self.0[1])
    }
    fn data_byte_2(&self) -> U7 {
        U7::new(self.0[2])
    }
    fn to_bytes(&self) -> (u8, U7, U7) {
        (self.0[0], U7::new(self.0[1]), U7::new(self.0[2]))
    }
}

impl ShortMessageFactory for ForeignBytes {
    unsafe fn from_bytes_unchecked(bytes: (u8, U7, U7)) -> Self {
        ForeignBytes([bytes.0, bytes.1.get(), bytes.2.get()])
    }
}

/// A foreign implementor that relies on the documented contract of `from_bytes_unchecked`
/// (the status byte is valid): an event struct around a `StructuredShortMessage`.
#[derive(Copy, Clone, PartialEq, Eq, Debug)]
pub struct ForeignEvent {
    pub msg: StructuredShortMessage,
    pub frame: u32,
}

impl ShortMessage for ForeignEvent {
    fn status_byte(&self) -> u8 {
        self.msg.status_byte()
    }
    fn data_byte_1(&self) -> U7 {
        self.msg.data_byte_1()
    }
    fn data_byte_2(&self) -> U7 {
        self.msg.data_byte_2()
    }
}

impl ShortMessageFactory for ForeignEvent {
    unsafe fn from_bytes_unchecked(bytes: (u8, U7, U7)) -> Self {
        ForeignEvent {
            msg: StructuredShortMessage::from_bytes_unchecked(bytes),
            frame: 3,
        }
    }
}

/// Another one relying on that contract: stores only the low seven bits of the status byte
/// (the top bit of a valid status byte is always set).
#[derive(Copy, Clone, PartialEq, Eq, Debug)]
pub struct ForeignPacked {
    pub status_low7: u8,
    pub d1: U7,
    pub d2: U7,
}

impl ShortMessage for ForeignPacked {
    fn status_byte(&self) -> u8 {
        0x80 | self.status_low7
    }
    fn data_byte_1(&self) -> U7 {
        self.d1
    }
    fn data_byte_2(&self) -> U7 {
        self.d2
    }
}

impl ShortMessageFactory for ForeignPacked {
    unsafe fn from_bytes_unchecked(bytes: (u8, U7, U7)) -> Self {
        ForeignPacked {
            status_low7: bytes.0 & 0x7F,
            d1: bytes.1,
            d2: bytes.2,
        }
    }
}

impl Observe for ForeignEvent {
    fn observe(&self) {
        self.msg.observe();
    }
    fn describe(&self) -> String {
        format!("{:?}", self)
    }
}

impl Observe for ForeignPacked {
    fn observe(&self) {
        self.d1.observe();
        self.d2.observe();
    }
    fn describe(&self) -> String {
        format!("{:?}", self)
    }
}

// ------------------------------------------------------------- range observer impls

macro_rules! observe_newtype {
    ($t:ty, $max:expr) => {
        impl Observe for $t {
            #[inline]
            fn observe(&self) {
                range_check(self.get() as u32, $max);
            }
            fn describe(&self) -> String {
                format!("{}({})", stringify!($t), self.get())
            }
        }
    };
}
observe_newtype!(U4, 15);
observe_newtype!(U7, 127);
observe_newtype!(U14, 16383);
observe_newtype!(Channel, 15);
observe_newtype!(KeyNumber, 127);
observe_newtype!(ControllerNumber, 127);

macro_rules! observe_plain {
    ($($t:ty),*) => { $( impl Observe for $t { #[inline] fn observe(&self) {} fn describe(&self) -> String { format!("{:?}", self) } } )* };
}
observe_plain!(
    ShortMessageType,
    MessageSuperType,
    MessageMainCategory,
    FuzzyMessageSuperType,
    TimeCodeType,
    DataType,
    DataEntryByteOrder,
    FromBytesError,
    TryFromGreaterError,
    helgoboss_midi::ParseIntError
);

impl Observe for TimeCodeQuarterFrame {
    fn observe(&self) {
        use TimeCodeQuarterFrame::*;
        match self {
            FrameCountLsNibble(v)
            | FrameCountMsNibble(v)
            | SecondsCountLsNibble(v)
            | SecondsCountMsNibble(v)
            | MinutesCountLsNibble(v)
            | MinutesCountMsNibble(v)
            | HoursCountLsNibble(v) => v.observe(),
            Last { .. } => {}
        }
    }
    fn describe(&self) -> String {
        format!("{:?}", self)
    }
}

impl Observe for StructuredShortMessage {
    fn observe(&self) {
        use StructuredShortMessage::*;
        match self {
            NoteOff {
                channel,
                key_number,
                velocity,
            }
            | NoteOn {
                channel,
                key_number,
                velocity,
            } => {
                channel.observe();
                key_number.observe();
                velocity.observe();
            }
            PolyphonicKeyPressure {
                channel,
                key_number,
                pressure_amount,
            } => {
                channel.observe();
                key_number.observe();
                pressure_amount.observe();
            }
            ControlChange {
                channel,
                controller_number,
                control_value,
            } => {
                channel.observe();
                controller_number.observe();
                control_value.observe();
            }
            ProgramChange {
                channel,
                program_number,
            } => {
                channel.observe();
                program_number.observe();
            }
            ChannelPressure {
                channel,
                pressure_amount,
            } => {
                channel.observe();
                pressure_amount.observe();
            }
            PitchBendChange {
                channel,
                pitch_bend_value,
            } => {
                channel.observe();
                pitch_bend_value.observe();
            }
            TimeCodeQuarterFrame(f) => f.observe(),
            SongPositionPointer { position } => position.observe(),
            SongSelect { song_number } => song_number.observe(),
            _ => {}
        }
    }
    fn describe(&self) -> String {
        format!("{:?}", self)
    }
}

impl Observe for RawShortMessage {
    fn observe(&self) {
        let t: (u8, U7, U7) = (*self).into();
        t.1.observe();
        t.2.observe();
    }
    fn describe(&self) -> String {
        format!("{:?}", self)
    }
}

impl Observe for Foreign {
    fn observe(&self) {
        self.d1.observe();
        self.d2.observe();
    }
    fn describe(&self) -> String {
        format!("{:?}", self)
    }
}

impl Observe for ForeignBytes {
    fn observe(&self) {
        range_check(self.0[1] as u32, 127);
        range_check(self.0[2] as u32, 127);
    }
    fn describe(&self) -> String {
        format!("{:?}", self)
    }
}

impl Observe for ControlChange14BitMessage {
    fn observe(&self) {
        self.channel().observe();
        self.msb_controller_number().observe();
        self.value().observe();
    }
    fn describe(&self) -> String {
        format!("{:?}", self)
    }
}

impl Observe for ParameterNumberMessage {
    fn observe(&self) {
        self.channel().observe();
        self.number().observe();
        self.value().observe();
    }
    fn describe(&self) -> String {
        format!("{:?}", self)
    }
}

observe_plain!(ControlChange14BitMessageScanner, ParameterNumberMessageScanner);
#[cfg(feature = "std")]
observe_plain!(PollingParameterNumberMessageScanner);
