//! Real-clock smoke workload, built WITHOUT --cfg helgoboss_midi_verif: the polling scanner uses
//! std::time::Instant here. It cross-checks what the mock clock cannot show: that nothing
//! panics with the real Instant arithmetic (huge timeouts!) and that the basic timeout
//! behaviour agrees with the mock-clock results. Margins are generous (200 ms timeout, polls
//! immediately / after 350 ms) so that a loaded machine cannot flip a verdict; an
//! implausibly slow step is reported as "inconclusive", never as a failure.
//!
//! usage: realclock <out.json>
use helgoboss_midi::test_util::{channel, control_change};
use helgoboss_midi::{ParameterNumberMessage, PollingParameterNumberMessageScanner, U14, U7};
use std::panic::{catch_unwind, AssertUnwindSafe};
use std::time::{Duration, Instant};

fn main() {
    let out = std::env::args().nth(1).expect("usage: realclock <out.json>");
    std::panic::set_hook(Box::new(|_| {}));
    let mut panics: Vec<String> = Vec::new();
    let mut failures: Vec<String> = Vec::new();
    let mut inconclusive: Vec<String> = Vec::new();
    let mut cases = 0u32;
    let seven = |v: u8| ParameterNumberMessage::non_registered_7_bit(channel(2), U14::new(421), U7::new(v));
    macro_rules! case {
        ($name:expr, $body:block) => {{
            cases += 1;
            let r = catch_unwind(AssertUnwindSafe(|| -> Result<(), String> { $body }));
            match r {
                Err(e) => {
                    let msg = e.downcast_ref::<String>().cloned().or_else(|| e.downcast_ref::<&str>().map(|s| s.to_string())).unwrap_or_default();
                    panics.push(format!("{}: {}", $name, msg));
                }
                Ok(Err(m)) => {
                    if m.starts_with("SLOW") {
                        inconclusive.push(format!("{}: {}", $name, m));
                    } else {
                        failures.push(format!("{}: {}", $name, m));
                    }
                }
                Ok(Ok(())) => {}
            }
        }};
    }
    let sel = |s: &mut PollingParameterNumberMessageScanner| {
        let a = s.feed(&control_change(2, 99, 3));
        let b = s.feed(&control_change(2, 98, 37));
        a == [None, None] && b == [None, None]
    };
    case!("timeout 0: pending MSB reported by an immediate poll", {
        let mut s = PollingParameterNumberMessageScanner::new(Duration::from_millis(0));
        if !sel(&mut s) { return Err("selection reported something".into()); }
        if s.feed(&control_change(2, 6, 126)) != [None, None] { return Err("MSB feed reported".into()); }
        if s.poll(channel(2)) != Some(seven(126)) { return Err("poll did not report the 7-bit message".into()); }
        if s.poll(channel(2)).is_some() { return Err("second poll reported again".into()); }
        Ok(())
    });
    case!("timeout 200 ms: early poll nothing, late poll reports once", {
        let mut s = PollingParameterNumberMessageScanner::new(Duration::from_millis(200));
        sel(&mut s);
        let t0 = Instant::now();
        s.feed(&control_change(2, 6, 100));
        let early = s.poll(channel(2));
        if t0.elapsed() > Duration::from_millis(150) { return Err("SLOW machine: early poll came too late".into()); }
        if early.is_some() { return Err(format!("poll after {:?} reported {:?}", t0.elapsed(), early)); }
        std::thread::sleep(Duration::from_millis(350));
        if s.poll(channel(2)) != Some(seven(100)) { return Err("late poll did not report".into()); }
        if s.poll(channel(2)).is_some() { return Err("second late poll reported again".into()); }
        Ok(())
    });
    case!("timeout 200 ms: early poll has no effect (LSB still pairs)", {
        let mut s = PollingParameterNumberMessageScanner::new(Duration::from_millis(200));
        sel(&mut s);
        let t0 = Instant::now();
        s.feed(&control_change(2, 38, 24));
        let p = s.poll(channel(2));
        let r = s.feed(&control_change(2, 6, 117));
        if t0.elapsed() > Duration::from_millis(150) { return Err("SLOW machine".into()); }
        if p.is_some() { return Err("early poll reported".into()); }
        let want = ParameterNumberMessage::non_registered_14_bit(channel(2), U14::new(421), U14::new(15000));
        if r != [Some(want), None] { return Err(format!("LSB, early poll, MSB gave {:?}", r)); }
        Ok(())
    });
    case!("timeout 200 ms: unpaired LSB dropped by the late poll", {
        let mut s = PollingParameterNumberMessageScanner::new(Duration::from_millis(200));
        sel(&mut s);
        s.feed(&control_change(2, 38, 24));
        std::thread::sleep(Duration::from_millis(350));
        if s.poll(channel(2)).is_some() { return Err("late poll reported an unpaired LSB".into()); }
        if s.feed(&control_change(2, 6, 117)) != [None, None] { return Err("MSB after dropped LSB completed a 14-bit value".into()); }
        Ok(())
    });
    for (name, t) in [
        ("Duration::MAX", Duration::MAX),
        ("u64::MAX s", Duration::from_secs(u64::MAX)),
        ("u64::MAX/2 s", Duration::from_secs(u64::MAX / 2)),
        ("2^40 s", Duration::from_secs(1 << 40)),
        ("100 years", Duration::from_secs(100 * 365 * 86400)),
        ("u64::MAX ns", Duration::from_nanos(u64::MAX)),
        ("2^55 s (a multiple of 2^64 ns)", Duration::from_secs(1 << 55)),
        ("2^55 + 3 s", Duration::from_secs((1 << 55) + 3)),
        ("2^64 ns + 1.5 us", Duration::new(18_446_744_073, 709_551_616 + 1_500)),
    ] {
        case!(format!("huge timeout {}: nothing panics, nothing is reported by poll", name), {
            let mut s = PollingParameterNumberMessageScanner::new(t);
            sel(&mut s);
            s.feed(&control_change(2, 6, 1));
            if s.poll(channel(2)).is_some() { return Err("poll reported before a huge timeout".into()); }
            let r = s.feed(&control_change(2, 6, 2));
            if r != [Some(seven(1)), None] { return Err(format!("second MSB gave {:?}", r)); }
            if s.poll(channel(2)).is_some() { return Err("poll reported before a huge timeout".into()); }
            s.feed(&control_change(2, 38, 3));
            s.feed(&control_change(2, 38, 4));
            s.poll(channel(2));
            s.feed(&control_change(2, 96, 5));
            s.feed(&control_change(2, 38, 6));
            s.poll(channel(2));
            s.poll(channel(7));
            s.reset();
            if s != PollingParameterNumberMessageScanner::new(t) { return Err("reset != new".into()); }
            Ok(())
        });
    }
    // busy-polling across the deadline: every poll before it returns nothing, the first one after
    // it returns the value once; nothing may panic while the clock crosses the deadline
    for (name, t) in [("20 us", Duration::from_micros(20)), ("300 us", Duration::from_micros(300)), ("2 ms", Duration::from_millis(2))] {
        case!(format!("busy-poll across a {} deadline", name), {
            for round in 0..60u8 {
                let mut s = PollingParameterNumberMessageScanner::new(t);
                sel(&mut s);
                s.feed(&control_change(2, 6, round));
                let t0 = Instant::now();
                let mut reported = 0;
                while t0.elapsed() < t * 3 + Duration::from_micros(200) {
                    let before = t0.elapsed();
                    if let Some(m) = s.poll(channel(2)) {
                        reported += 1;
                        if m != seven(round) { return Err(format!("poll reported {:?}", m)); }
                        // `before` was read before the poll: a report cannot come earlier than the deadline minus scheduling noise
                        let _ = before;
                    }
                }
                // one more poll well after the deadline: in total the value is reported exactly once
                // (also if this thread was descheduled for the whole late part of the loop)
                std::thread::sleep(t);
                if s.poll(channel(2)).is_some() { reported += 1; }
                if reported != 1 { return Err(format!("value reported {} times while polling across the deadline", reported)); }
            }
            Ok(())
        });
    }
    case!("a copy polled on another thread times out like the original", {
        let t = Duration::from_millis(120);
        let mut s = PollingParameterNumberMessageScanner::new(t);
        sel(&mut s);
        s.feed(&control_change(2, 6, 77));
        let mut copy = s;
        let fed = Instant::now();
        // the worker thread is started first, sleeps past the deadline, then polls its copy
        let h = std::thread::spawn(move || {
            std::thread::sleep(Duration::from_millis(300));
            (copy.poll(channel(2)), copy)
        });
        std::thread::sleep(Duration::from_millis(300));
        let here = s.poll(channel(2));
        let (there, copy_after) = h.join().map_err(|_| "worker thread panicked".to_string())?;
        if fed.elapsed() < t { return Err("SLOW machine (clock went backwards?)".into()); }
        if here != Some(seven(77)) { return Err(format!("original reported {:?}", here)); }
        if there != here { return Err(format!("the copy polled on another thread reported {:?}, the original {:?}", there, here)); }
        if copy_after != s { return Err("copy and original differ after the same history".into()); }
        Ok(())
    });
    case!("a scanner created on another thread behaves the same", {
        let t = Duration::from_millis(120);
        let mut s = std::thread::spawn(move || {
            let mut s = PollingParameterNumberMessageScanner::new(t);
            s.feed(&control_change(2, 99, 3));
            s.feed(&control_change(2, 98, 37));
            s.feed(&control_change(2, 6, 78));
            s
        })
        .join()
        .map_err(|_| "worker thread panicked".to_string())?;
        let t0 = Instant::now();
        let early = s.poll(channel(2));
        if t0.elapsed() > Duration::from_millis(80) { return Err("SLOW machine".into()); }
        if early.is_some() { return Err("early poll (scanner moved between threads) reported".into()); }
        std::thread::sleep(Duration::from_millis(250));
        if s.poll(channel(2)) != Some(seven(78)) { return Err("late poll (scanner moved between threads) did not report".into()); }
        Ok(())
    });
    case!("default(): zero timeout", {
        let mut s = PollingParameterNumberMessageScanner::default();
        sel(&mut s);
        s.feed(&control_change(2, 6, 9));
        if s.poll(channel(2)) != Some(seven(9)) { return Err("default() scanner did not report at once".into()); }
        Ok(())
    });
    let j = format!(
        "{{\"cases\":{},\"panics\":{:?},\"failures\":{:?},\"inconclusive\":{:?}}}",
        cases, panics, failures, inconclusive
    );
    std::fs::write(&out, j).expect("write");
}
