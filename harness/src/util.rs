//! PRNG, parallel driver, configuration.

use crate::mon;
use crate::report::Report;

#[derive(Clone, Debug)]
pub struct Cfg {
    pub prop: String,
    pub thorough: bool,
    pub seed: u64,
    pub threads: usize,
    /// true when run as a sub-workload of C18 (reduced sizes; only monitor hits matter)
    pub as_c18: bool,
    pub release: bool,
    /// this build is not the primary one of a quick run (exhaustive sweeps may be thinned)
    pub secondary: bool,
}

impl Cfg {
    /// picks a size by tier (and a reduced one when running under C18's run-all)
    pub fn size(&self, c18: u64, quick: u64, thorough: u64) -> u64 {
        if self.as_c18 {
            if self.thorough {
                quick
            } else {
                c18
            }
        } else if self.thorough {
            thorough
        } else {
            quick
        }
    }
}

/// xoshiro256** seeded through SplitMix64.
#[derive(Clone)]
pub struct Rng {
    s: [u64; 4],
}

impl Rng {
    pub fn new(seed: u64) -> Rng {
        let mut z = seed.wrapping_add(0x9E37_79B9_7F4A_7C15);
        let mut s = [0u64; 4];
        for x in s.iter_mut() {
            z = z.wrapping_add(0x9E37_79B9_7F4A_7C15);
            let mut y = z;
            y = (y ^ (y >> 30)).wrapping_mul(0xBF58_476D_1CE4_E5B9);
            y = (y ^ (y >> 27)).wrapping_mul(0x94D0_49BB_1331_11EB);
            *x = y ^ (y >> 31);
        }
        Rng { s }
    }
    pub fn derive(seed: u64, stream: u64) -> Rng {
        Rng::new(seed ^ stream.wrapping_mul(0xD6E8_FEB8_6659_FD93).rotate_left(17))
    }
    #[inline]
    pub fn next(&mut self) -> u64 {
        let r = self.s[1].wrapping_mul(5).rotate_left(7).wrapping_mul(9);
        let t = self.s[1] << 17;
        self.s[2] ^= self.s[0];
        self.s[3] ^= self.s[1];
        self.s[1] ^= self.s[2];
        self.s[0] ^= self.s[3];
        self.s[2] ^= t;
        self.s[3] = self.s[3].rotate_left(45);
        r
    }
    #[inline]
    pub fn below(&mut self, n: u64) -> u64 {
        debug_assert!(n > 0);
        ((self.next() as u128 * n as u128) >> 64) as u64
    }
    #[inline]
    pub fn range(&mut self, lo: u64, hi_incl: u64) -> u64 {
        lo + self.below(hi_incl - lo + 1)
    }
    #[inline]
    pub fn chance(&mut self, num: u64, den: u64) -> bool {
        self.below(den) < num
    }
    pub fn pick<'a, T>(&mut self, xs: &'a [T]) -> &'a T {
        &xs[self.below(xs.len() as u64) as usize]
    }
}

/// Runs `f(shard, nshards)` on `cfg.threads` worker threads; merges reports and monitor state.
pub fn par<F>(cfg: &Cfg, rep: &mut Report, f: F)
where
    F: Fn(usize, usize, &mut Report) + Sync,
{
    let n = cfg.threads.max(1);
    let results: Vec<(Report, mon::Ctx)> = std::thread::scope(|s| {
        let mut hs = Vec::new();
        for i in 0..n {
            let f = &f;
            hs.push(
                std::thread::Builder::new()
                    .stack_size(64 << 20)
                    .spawn_scoped(s, move || {
                        let mut r = Report::new();
                        f(i, n, &mut r);
                        (r, mon::take_ctx())
                    })
                    .expect("spawn"),
            );
        }
        hs.into_iter()
            .map(|h| h.join().expect("worker thread crashed (harness error)"))
            .collect()
    });
    for (r, c) in results {
        rep.merge(r);
        mon::put_ctx(c);
    }
}

/// A fixed-size stack buffer implementing fmt::Write (formatting without heap allocation).
pub struct StackBuf<const N: usize> {
    pub buf: [u8; N],
    pub len: usize,
    pub overflow: bool,
}

impl<const N: usize> StackBuf<N> {
    pub fn new() -> Self {
        StackBuf {
            buf: [0; N],
            len: 0,
            overflow: false,
        }
    }
    pub fn as_str(&self) -> &str {
        std::str::from_utf8(&self.buf[..self.len]).unwrap_or("<bad utf8>")
    }
    pub fn clear(&mut self) {
        self.len = 0;
        self.overflow = false;
    }
}

impl<const N: usize> std::fmt::Write for StackBuf<N> {
    fn write_str(&mut self, s: &str) -> std::fmt::Result {
        let b = s.as_bytes();
        if self.len + b.len() > N {
            self.overflow = true;
            let room = N - self.len;
            self.buf[self.len..].copy_from_slice(&b[..room]);
            self.len = N;
            return Ok(());
        }
        self.buf[self.len..self.len + b.len()].copy_from_slice(b);
        self.len += b.len();
        Ok(())
    }
}

/// 128-bit hash of a byte string (two independent FNV-style/xxhash-like lanes); used for explorer keys.
pub fn hash128(bytes: &[u8]) -> u128 {
    let mut a: u64 = 0xcbf2_9ce4_8422_2325;
    let mut b: u64 = 0x9E37_79B9_7F4A_7C15;
    for &x in bytes {
        a = (a ^ x as u64).wrapping_mul(0x0000_0100_0000_01B3);
        b = (b.rotate_left(5) ^ x as u64).wrapping_mul(0xff51_afd7_ed55_8ccd);
    }
    b ^= b >> 33;
    b = b.wrapping_mul(0xc4ce_b9fe_1a85_ec53);
    b ^= b >> 33;
    ((a as u128) << 64) | b as u128
}

/// Abstract data values for explorer runs. Data independence in the 7-bit values is an
/// assumption of every value-abstracted explorer; instead of always using the same two values
/// the runs rotate: the first pair is fixed, quick adds `quick_extra` seeded pairs, thorough in
/// the release build covers every 7-bit value once as first member of a pair (and once as
/// second member, since a -> 37a+11 mod 128 is a bijection).
pub fn value_pairs(cfg: &Cfg, stream: u64, quick_extra: usize) -> Vec<[u8; 2]> {
    let mut v: Vec<[u8; 2]> = vec![[0, 1]];
    if cfg.as_c18 {
        return v;
    }
    if cfg.thorough && cfg.release {
        for a in 0u16..128 {
            let b = ((a * 37 + 11) % 128) as u8;
            if [a as u8, b] != [0, 1] {
                v.push([a as u8, b]);
            }
        }
    } else {
        let mut rng = Rng::derive(cfg.seed, 0xAB57 ^ stream);
        let n = if cfg.thorough { quick_extra * 3 } else { quick_extra };
        while v.len() < 1 + n {
            let a = rng.below(128) as u8;
            let b = rng.below(128) as u8;
            if a != b {
                v.push([a, b]);
            }
        }
    }
    v
}

/// the i-th channel of a seeded permutation of 0..16
pub fn rotating_channel(cfg: &Cfg, i: usize) -> u8 {
    let mut c: Vec<u8> = (0..16).collect();
    let mut rng = Rng::derive(cfg.seed, 0xC4A2);
    for k in 0..16 {
        let j = rng.range(k as u64, 15) as usize;
        c.swap(k, j);
    }
    c[i % 16]
}

/// Spec-derived dictionary: parameter-number bytes and data values that the MIDI specifications
/// single out (RPN 0-6: pitch bend sensitivity, fine/coarse tuning, tuning program/bank,
/// modulation depth, MPE configuration; 0x3D xx: 3D sound; 127/127: null; values 0, 64, 100,
/// 127, small zone sizes ...). Implementations special-case such constants, so value-abstracted
/// explorers and random generators draw from this dictionary in addition to arbitrary values.
pub const DICT_PAIRS: [[u8; 2]; 12] = [
    [0, 6], [0, 3], [0, 2], [0, 4], [0, 5], [127, 0], [0x3D, 0], [0, 64], [0, 100], [0, 12], [2, 1], [0, 15],
];
pub const DICT_VALUES: [u8; 24] = [0, 1, 2, 3, 4, 5, 6, 7, 8, 12, 15, 16, 24, 32, 38, 48, 63, 64, 65, 96, 100, 120, 126, 127];
pub const DICT_NUMBER_BYTES: [u8; 12] = [0, 1, 2, 3, 4, 5, 6, 7, 8, 0x3D, 126, 127];

/// dictionary pairs for explorer runs: the first `always` entries every time, the rest rotate
/// with the seed (quick: `extra` of them; thorough: all)
pub fn dict_pairs(cfg: &Cfg, always: usize, extra: usize) -> Vec<[u8; 2]> {
    if cfg.as_c18 {
        return vec![];
    }
    if cfg.thorough {
        return DICT_PAIRS.to_vec();
    }
    let mut v: Vec<[u8; 2]> = DICT_PAIRS[..always].to_vec();
    let rest = &DICT_PAIRS[always..];
    for k in 0..extra {
        v.push(rest[(cfg.seed as usize * 3 + k) % rest.len()]);
    }
    v
}

// ---------------------------------------------------------------------------------------
// Auto-dictionary: integer literals found in the source tree under test that the pinned tree
// does not contain (computed by ./check, handed over in VCHECK_EXTRA_LITERALS). Workloads add
// them to their value dictionaries, the way fuzzers seed themselves with a program's
// comparison constants. Empty on the unchanged tree.
// ---------------------------------------------------------------------------------------

pub fn extra_literals() -> &'static [u32] {
    static L: std::sync::OnceLock<Vec<u32>> = std::sync::OnceLock::new();
    L.get_or_init(|| {
        let mut v: Vec<u32> = std::env::var("VCHECK_EXTRA_LITERALS")
            .unwrap_or_default()
            .split(',')
            .filter_map(|t| t.trim().parse::<u32>().ok())
            .filter(|x| *x <= 16383)
            .collect();
        v.dedup();
        v.truncate(24);
        v
    })
}

/// 7-bit values derived from the extra literals (the literal itself, and both halves of a
/// 14-bit literal); at most 8
pub fn extra_values7() -> Vec<u8> {
    let mut v: Vec<u8> = Vec::new();
    for &x in extra_literals() {
        let cands = if x <= 127 { vec![x as u8] } else { vec![(x >> 7) as u8, (x & 127) as u8] };
        for c in cands {
            if !v.contains(&c) && v.len() < 8 {
                v.push(c);
            }
        }
    }
    v
}

/// 14-bit numbers derived from the extra literals: the literals themselves and every ordered
/// pair of the (at most 8) 7-bit values as (msb, lsb); at most 88
pub fn extra_numbers14() -> Vec<u16> {
    let mut v: Vec<u16> = Vec::new();
    for &x in extra_literals() {
        if !v.contains(&(x as u16)) {
            v.push(x as u16);
        }
    }
    let v7 = extra_values7();
    for &a in v7.iter() {
        for &b in v7.iter() {
            let n = a as u16 * 128 + b as u16;
            if !v.contains(&n) && v.len() < 88 {
                v.push(n);
            }
        }
    }
    v
}

/// channels among the extra literals, plus the manager channels
pub fn extra_channels() -> Vec<u8> {
    let mut v: Vec<u8> = vec![0];
    for &x in extra_literals() {
        if x <= 15 && !v.contains(&(x as u8)) && v.len() < 4 {
            v.push(x as u8);
        }
    }
    v
}
