//! Generic fixpoint explorer over (real implementation value x monitor state).
//!
//! Level-synchronous parallel BFS. Every transition is a genuine execution step of the real
//! code (the system is cloned from the node, the symbol is applied through the API boundary and
//! judged by the system's own monitors). Nodes are merged by a canonical key; merging can only
//! lose behaviours, never create an execution the code cannot have.

use crate::mon;
use crate::report::Report;
use crate::util::{hash128, Cfg};
use std::collections::HashSet;

pub trait Sys: Clone + Send + Sync {
    type Sym: Clone + Send + Sync + std::fmt::Debug;
    /// canonical key of the current state (written into `buf`, which is cleared by the caller)
    fn key(&self, buf: &mut Vec<u8>, scratch: &mut String);
    /// applies one symbol to the real implementation and the monitors; `path` lazily renders the
    /// history that leads to the current node (for violation witnesses).
    fn step(&mut self, sym: &Self::Sym, rep: &mut Report, path: &dyn Fn() -> Vec<String>);
    fn render(sym: &Self::Sym) -> String;
    /// optional extra checks run once per discovered state
    fn visit(&self, _rep: &mut Report, _path: &dyn Fn() -> Vec<String>) {}
}

pub struct Stats {
    pub states: u64,
    pub transitions: u64,
    pub depth: u64,
    pub fixpoint: bool,
}

struct Node {
    parent: u32,
    sym: u32,
}

fn path_of<S: Sys>(nodes: &[Node], alphabet: &[S::Sym], mut id: u32) -> Vec<String> {
    let mut v = Vec::new();
    while id != u32::MAX {
        let n = &nodes[id as usize];
        if n.sym != u32::MAX {
            v.push(S::render(&alphabet[n.sym as usize]));
        }
        id = n.parent;
    }
    v.reverse();
    v
}

pub fn explore<S: Sys>(
    cfg: &Cfg,
    init: S,
    alphabet: &[S::Sym],
    max_states: usize,
    rep: &mut Report,
    keep_states: bool,
) -> (Stats, Vec<S>) {
    let mut visited: HashSet<u128> = HashSet::new();
    let mut nodes: Vec<Node> = Vec::new();
    let mut all_states: Vec<S> = Vec::new();
    let mut buf = Vec::new();
    let mut scratch = String::new();
    init.key(&mut buf, &mut scratch);
    visited.insert(hash128(&buf));
    nodes.push(Node {
        parent: u32::MAX,
        sym: u32::MAX,
    });
    let mut frontier: Vec<(u32, S)> = vec![(0, init)];
    let mut transitions = 0u64;
    let mut depth = 0u64;
    let mut fixpoint = false;
    let threads = cfg.threads.max(1);
    loop {
        if frontier.is_empty() {
            fixpoint = true;
            break;
        }
        if nodes.len() > max_states {
            break;
        }
        depth += 1;
        // process the frontier in parallel
        let chunk = (frontier.len() + threads - 1) / threads;
        let nodes_ref = &nodes;
        let visited_ref = &visited;
        let results: Vec<(Vec<(u128, u32, u32, S)>, Report, mon::Ctx, u64)> = std::thread::scope(|sc| {
            let mut hs = Vec::new();
            for part in frontier.chunks(chunk.max(1)) {
                hs.push(
                    std::thread::Builder::new()
                        .stack_size(64 << 20)
                        .spawn_scoped(sc, move || {
                            let mut out: Vec<(u128, u32, u32, S)> = Vec::new();
                            let mut local_seen: HashSet<u128> = HashSet::new();
                            let mut r = Report::new();
                            let mut buf = Vec::new();
                            let mut scratch = String::new();
                            let mut tr = 0u64;
                            for (id, s) in part {
                                let id = *id;
                                s.visit(&mut r, &|| path_of::<S>(nodes_ref, alphabet, id));
                                for (si, sym) in alphabet.iter().enumerate() {
                                    let mut t = s.clone();
                                    let pf = || {
                                        let mut p = path_of::<S>(nodes_ref, alphabet, id);
                                        p.push(S::render(sym));
                                        p
                                    };
                                    t.step(sym, &mut r, &pf);
                                    tr += 1;
                                    buf.clear();
                                    t.key(&mut buf, &mut scratch);
                                    let h = hash128(&buf);
                                    if !visited_ref.contains(&h) && local_seen.insert(h) {
                                        out.push((h, id, si as u32, t));
                                    }
                                }
                            }
                            (out, r, mon::take_ctx(), tr)
                        })
                        .expect("spawn"),
                );
            }
            hs.into_iter()
                .map(|h| h.join().expect("explorer worker crashed (harness error)"))
                .collect()
        });
        let old = std::mem::take(&mut frontier);
        if keep_states {
            for (_, s) in old {
                all_states.push(s);
            }
        }
        for (out, r, c, tr) in results {
            rep.merge(r);
            mon::put_ctx(c);
            transitions += tr;
            for (h, parent, sym, t) in out {
                if visited.insert(h) {
                    let id = nodes.len() as u32;
                    nodes.push(Node { parent, sym });
                    frontier.push((id, t));
                }
            }
        }
    }
    if keep_states {
        for (_, s) in frontier.drain(..) {
            all_states.push(s);
        }
    }
    let st = Stats {
        states: nodes.len() as u64,
        transitions,
        depth,
        fixpoint,
    };
    (st, all_states)
}
