//! Generic fixpoint explorer over (real implementation value x monitor state).
//!
//! Level-synchronous parallel BFS. Every transition is a genuine execution step of the real
//! code (the system is cloned from the node, the symbol is applied through the API boundary and
//! judged by the system's own monitors). Nodes are merged by a canonical key; merging can only
//! lose behaviours, never create an execution the code cannot have.

use crate::mon;
use crate::report::Report;
use crate::util::{hash128, Cfg};
use std::collections::HashSet;

pub trait Sys: Clone + Send + Sync {
    type Sym: Clone + Send + Sync + std::fmt::Debug;
    /// canonical key of the current state (written into `buf`, which is cleared by the caller)
    fn key(&self, buf: &mut Vec<u8>, scratch: &mut String);
    /// applies one symbol to the real implementation and the monitors; `path` lazily renders the
    /// history that leads to the current node (for violation witnesses).
    fn step(&mut self, sym: &Self::Sym, rep: &mut Report, path: &dyn Fn() -> Vec<String>);
    fn render(sym: &Self::Sym) -> String;
    /// optional extra checks run once per discovered state
    fn visit(&self, _rep: &mut Report, _path: &dyn Fn() -> Vec<String>) {}
}

pub struct Stats {
    pub states: u64,
    pub transitions: u64,
    pub depth: u64,
    pub fixpoint: bool,
}

struct Node {
    parent: u32,
    sym: u32,
}

fn path_of<S: Sys>(nodes: &[Node], alphabet: &[S::Sym], mut id: u32) -> Vec<String> {
    let mut v = Vec::new();
    while id != u32::MAX {
        let n = &nodes[id as usize];
        if n.sym != u32::MAX {
            v.push(S::render(&alphabet[n.sym as usize]));
        }
        id = n.parent;
    }
    v.reverse();
    v
}

pub fn explore<S: Sys>(
    cfg: &Cfg,
    init: S,
    alphabet: &[S::Sym],
    max_states: usize,
    rep: &mut Report,
    keep_states: bool,
) -> (Stats, Vec<S>) {
    // hard bounds per tier: a reference-tree exploration needs at most a few 10^4 states; a state
    // space far beyond that (e.g. a hidden counter in a changed implementation) must end the
    // run quickly as "no fixpoint" (=> inconclusive) instead of running for hours
    let tier_cap: usize = if !cfg.thorough { 120_000 } else if !cfg.release { 300_000 } else { 3_000_000 };
    let max_states = max_states.min(tier_cap);
    let max_transitions: u64 = if !cfg.thorough { 40_000_000 } else if !cfg.release { 150_000_000 } else { 2_000_000_000 };
    let mut visited: HashSet<u128> = HashSet::new();
    let mut nodes: Vec<Node> = Vec::new();
    let mut all_states: Vec<S> = Vec::new();
    let mut buf = Vec::new();
    let mut scratch = String::new();
    init.key(&mut buf, &mut scratch);
    visited.insert(hash128(&buf));
    nodes.push(Node {
        parent: u32::MAX,
        sym: u32::MAX,
    });
    let mut frontier: Vec<(u32, S)> = vec![(0, init)];
    let mut transitions = 0u64;
    let mut depth = 0u64;
    let mut fixpoint = false;
    let threads = cfg.threads.max(1);
    loop {
        if frontier.is_empty() {
            fixpoint = true;
            break;
        }
        if nodes.len() > max_states || transitions > max_transitions {
            break;
        }
        // the verdict is already "violated": no need to finish the exploration of a broken tree
        if rep.own_violations(&cfg.prop) >= 20 {
            break;
        }
        depth += 1;
        // process the frontier in parallel
        let chunk = (frontier.len() + threads - 1) / threads;
        let nodes_ref = &nodes;
        let visited_ref = &visited;
        let results: Vec<(Vec<(u128, u32, u32, S)>, Report, mon::Ctx, u64)> = std::thread::scope(|sc| {
            let mut hs = Vec::new();
            for part in frontier.chunks(chunk.max(1)) {
                hs.push(
                    std::thread::Builder::new()
                        .stack_size(64 << 20)
                        .spawn_scoped(sc, move || {
                            let mut out: Vec<(u128, u32, u32, S)> = Vec::new();
                            let mut local_seen: HashSet<u128> = HashSet::new();
                            let mut r = Report::new();
                            let mut buf = Vec::new();
                            let mut scratch = String::new();
                            let mut tr = 0u64;
                            for (id, s) in part {
                                let id = *id;
                                s.visit(&mut r, &|| path_of::<S>(nodes_ref, alphabet, id));
                                for (si, sym) in alphabet.iter().enumerate() {
                                    let mut t = s.clone();
                                    let pf = || {
                                        let mut p = path_of::<S>(nodes_ref, alphabet, id);
                                        p.push(S::render(sym));
                                        p
                                    };
                                    t.step(sym, &mut r, &pf);
                                    tr += 1;
                                    buf.clear();
                                    t.key(&mut buf, &mut scratch);
                                    let h = hash128(&buf);
                                    if !visited_ref.contains(&h) && local_seen.insert(h) {
                                        out.push((h, id, si as u32, t));
                                    }
                                }
                            }
                            (out, r, mon::take_ctx(), tr)
                        })
                        .expect("spawn"),
                );
            }
            hs.into_iter()
                .map(|h| h.join().expect("explorer worker crashed (harness error)"))
                .collect()
        });
        let old = std::mem::take(&mut frontier);
        if keep_states {
            for (_, s) in old {
                all_states.push(s);
            }
        }
        for (out, r, c, tr) in results {
            rep.merge(r);
            mon::put_ctx(c);
            transitions += tr;
            for (h, parent, sym, t) in out {
                if visited.insert(h) {
                    let id = nodes.len() as u32;
                    nodes.push(Node { parent, sym });
                    frontier.push((id, t));
                }
            }
        }
    }
    if keep_states {
        for (_, s) in frontier.drain(..) {
            all_states.push(s);
        }
    }
    let st = Stats {
        states: nodes.len() as u64,
        transitions,
        depth,
        fixpoint,
    };
    (st, all_states)
}

/// Repetition ("pumping") workload: behaviours that depend on how often something happened
/// (saturating or wrapping counters, streak heuristics, generation numbers) are out of reach of
/// short histories and of state-merging exploration. From every start state, every cycle of
/// symbols is repeated `k` times on the real implementation (each step judged by the system's
/// monitors); after every iteration (or only at the end when `tail_every` is false) each tail
/// symbol is applied to a copy, so that the monitors also judge "what happens next".
pub fn pump<S: Sys>(
    cfg: &Cfg,
    rep: &mut Report,
    starts: &[(Vec<S::Sym>, S)],
    cycles: &[Vec<S::Sym>],
    k: usize,
    tail: &[S::Sym],
    tail_every: bool,
) -> u64 {
    let jobs: Vec<(usize, usize)> = (0..starts.len()).flat_map(|i| (0..cycles.len()).map(move |j| (i, j))).collect();
    let jobs_ref = &jobs;
    let mut steps_total = 0u64;
    let counter = std::sync::atomic::AtomicU64::new(0);
    let counter_ref = &counter;
    crate::util::par(cfg, rep, |shard, nsh, rep| {
        let mut steps = 0u64;
        for (ji, (si, ci)) in jobs_ref.iter().enumerate() {
            if ji % nsh != shard {
                continue;
            }
            let (prefix, start) = &starts[*si];
            let cycle = &cycles[*ci];
            let mut s = start.clone();
            let before = rep.own_violations(&cfg.prop);
            for it in 0..k {
                for (pos, sym) in cycle.iter().enumerate() {
                    let pf = || {
                        let mut p: Vec<String> = prefix.iter().map(|x| S::render(x)).collect();
                        push_repeat::<S>(&mut p, cycle, it);
                        p.extend(cycle[..=pos].iter().map(|x| S::render(x)));
                        p
                    };
                    s.step(sym, rep, &pf);
                    steps += 1;
                }
                if tail_every || it + 1 == k {
                    for t in tail {
                        let mut c = s.clone();
                        let pf = || {
                            let mut p: Vec<String> = prefix.iter().map(|x| S::render(x)).collect();
                            push_repeat::<S>(&mut p, cycle, it + 1);
                            p.push(S::render(t));
                            p
                        };
                        c.step(t, rep, &pf);
                        steps += 1;
                    }
                }
                if rep.own_violations(&cfg.prop) > before + 3 {
                    break; // enough witnesses for this (start, cycle)
                }
            }
        }
        rep.evaluations += steps;
        rep.count("pump_steps", steps);
        counter_ref.fetch_add(steps, std::sync::atomic::Ordering::Relaxed);
    });
    rep.count("pump_start_states", starts.len() as u64);
    rep.count("pump_cycles", cycles.len() as u64);
    rep.max("max_pump_repetitions", k as u64);
    steps_total += counter.load(std::sync::atomic::Ordering::Relaxed);
    steps_total
}

/// helper: start states from symbol prefixes applied to a fresh system
pub fn starts_from<S: Sys>(fresh: &S, prefixes: &[Vec<S::Sym>], rep: &mut Report) -> Vec<(Vec<S::Sym>, S)> {
    prefixes
        .iter()
        .map(|p| {
            let mut s = fresh.clone();
            for (i, sym) in p.iter().enumerate() {
                let pf = || p[..=i].iter().map(|x| S::render(x)).collect::<Vec<_>>();
                s.step(sym, rep, &pf);
            }
            (p.clone(), s)
        })
        .collect()
}

/// all cycles of length 1 and 2 over `syms`, plus the given extra cycles
pub fn cycles_upto2<T: Clone>(syms: &[T], extra: &[Vec<T>]) -> Vec<Vec<T>> {
    let mut v: Vec<Vec<T>> = syms.iter().map(|s| vec![s.clone()]).collect();
    for a in syms {
        for b in syms {
            v.push(vec![a.clone(), b.clone()]);
        }
    }
    v.extend(extra.iter().cloned());
    v
}

/// compressed rendering of `times` repetitions of a cycle: "repeat <n>x: ev | ev | ..."
/// (expanded again by `vcheck replay-history`)
fn push_repeat<S: Sys>(p: &mut Vec<String>, cycle: &[S::Sym], times: usize) {
    if times == 0 {
        return;
    }
    if times <= 3 {
        for _ in 0..times {
            p.extend(cycle.iter().map(|x| S::render(x)));
        }
    } else {
        let body: Vec<String> = cycle.iter().map(|x| S::render(x)).collect();
        p.push(format!("repeat {}x: {}", times, body.join(" | ")));
    }
}
