//! vcheck — runtime monitors, workload drivers and oracles for helgoboss-midi (see /verif/DESIGN.md).

mod carriers;
mod explore;
mod scan;
mod mon;
#[cfg(feature = "std")]
mod poll;
mod props;
mod report;
mod spec;
mod util;

use serde_json::{json, Value};
use std::time::Instant;

#[global_allocator]
static GLOBAL: mon::CountingAlloc = mon::CountingAlloc;

fn usage() -> ! {
    eprintln!("usage: vcheck run <PROP> <quick|thorough> <seed> <out.json> [--threads N] [--build NAME]");
    eprintln!("       vcheck replay <file.json>");
    std::process::exit(2);
}

fn main() {
    let args: Vec<String> = std::env::args().collect();
    if args.len() < 2 {
        usage();
    }
    mon::install_panic_hook();
    match args[1].as_str() {
        "run" => {
            if args.len() < 6 {
                usage();
            }
            let prop = args[2].clone();
            let thorough = args[3] == "thorough";
            let seed: u64 = args[4].parse().unwrap_or(0);
            let out = args[5].clone();
            let mut threads = std::thread::available_parallelism().map(|n| n.get()).unwrap_or(4).min(16);
            let mut build = String::from("?");
            let mut secondary = false;
            let mut i = 6;
            while i < args.len() {
                match args[i].as_str() {
                    "--threads" => {
                        threads = args[i + 1].parse().unwrap_or(threads);
                        i += 2;
                    }
                    "--secondary" => {
                        secondary = true;
                        i += 1;
                    }
                    "--build" => {
                        build = args[i + 1].clone();
                        i += 2;
                    }
                    _ => usage(),
                }
            }
            let cfg = util::Cfg {
                prop: prop.clone(),
                thorough,
                seed,
                threads,
                as_c18: false,
                // the panic=abort build runs the debug-sized workloads (optimised)
                release: !cfg!(debug_assertions) && !cfg!(panic = "abort"),
                secondary,
            };
            let t0 = Instant::now();
            let mut rep = report::Report::new();
            if !props::run_prop(&prop, &cfg, &mut rep) {
                eprintln!("unknown or unsupported property {} in this build", prop);
                std::process::exit(2);
            }
            let ctx = mon::take_ctx();
            if prop == "C18" {
                rep.distinct_nontrivial = ctx.calls.len() as u64;
                let mut req: Vec<&str> = props::c18::REQUIRED_ENTRIES.to_vec();
                #[cfg(feature = "std")]
                req.extend_from_slice(props::c18::REQUIRED_ENTRIES_STD);
                for e in req {
                    if ctx.calls.get(e).copied().unwrap_or(0) == 0 {
                        rep.inconclusive(format!("required API entry point was never exercised: {}", e));
                    }
                }
                rep.count("api_regions_checked_for_allocation_and_panic", ctx.calls.values().sum::<u64>());
                rep.count("distinct_api_entry_points", ctx.calls.len() as u64);
            }
            // monitor hits -> violations of the property being checked
            for h in &ctx.hits {
                let rp = json!({"kind":"monitor-hit","monitor":format!("{:?}", h.kind),"entry":h.entry,"case":h.case,"detail":h.detail});
                match h.kind {
                    mon::HitKind::Panic => crate::viol!(rep, 
                        format!("{}:unexpected-panic:{}", prop, h.entry),
                        format!("API call {} panicked on valid input: {} (case {})", h.entry, h.detail, h.case),
                        rp,
                    ),
                    mon::HitKind::Range if prop == "C04" => crate::viol!(rep, 
                        format!("C04:range-observer:{}", h.entry),
                        format!("{} returned {} (case {})", h.entry, h.detail, h.case),
                        rp,
                    ),
                    mon::HitKind::Alloc if prop == "C18" => crate::viol!(rep, 
                        format!("C18:heap-allocation:{}", h.entry),
                        format!("{}: {} (case {})", h.entry, h.detail, h.case),
                        rp,
                    ),
                    _ => rep.count(&format!("monitor_hits_not_decided_here_{:?}", h.kind), 1),
                }
            }
            // a check reports only violations of its own property; what the shared monitors saw
            // for other properties is counted (those properties have their own check commands)
            let own = format!("{}:", prop);
            let foreign: u64 = rep.sig_counts.iter().filter(|(k, _)| !k.starts_with(&own)).map(|(_, v)| *v).sum();
            if foreign > 0 {
                rep.count("violations_of_other_properties_seen_by_shared_monitors", foreign);
                let others: Vec<String> = rep.sig_counts.keys().filter(|k| !k.starts_with(&own)).cloned().collect();
                rep.notes.insert("other_property_signatures".into(), json!(others));
                rep.violations.retain(|v| v.sig.starts_with(&own));
                rep.sig_counts.retain(|k, _| k.starts_with(&own));
                rep.violations_total -= foreign;
            }
            let mut j = rep.to_json();
            let o = j.as_object_mut().unwrap();
            o.insert("property".into(), json!(prop));
            o.insert("build".into(), json!(build));
            o.insert("profile".into(), json!(if cfg.release { "release" } else { "debug" }));
            o.insert("feature_std".into(), json!(cfg!(feature = "std")));
            o.insert("feature_serde".into(), json!(cfg!(feature = "serde")));
            o.insert("wall_s".into(), json!(t0.elapsed().as_secs_f64()));
            o.insert("threads".into(), json!(threads));
            o.insert("seed".into(), json!(seed));
            let calls: serde_json::Map<String, Value> =
                ctx.calls.iter().map(|(k, v)| (k.to_string(), json!(v))).collect();
            let exp: serde_json::Map<String, Value> =
                ctx.expected_panics.iter().map(|(k, v)| (k.to_string(), json!(v))).collect();
            let hits: Vec<Value> = ctx
                .hits
                .iter()
                .map(|h| json!({"kind": format!("{:?}", h.kind), "entry": h.entry, "detail": h.detail, "case": h.case}))
                .collect();
            o.insert(
                "monitors".into(),
                json!({
                    "api_calls_by_entry": calls,
                    "api_regions": ctx.calls.values().sum::<u64>(),
                    "hits_total": ctx.hits_total,
                    "hits": hits,
                    "alloc_calls_in_regions": ctx.alloc_calls_in_regions,
                    "alloc_bytes_in_regions": ctx.alloc_bytes_in_regions,
                    "expected_panics_seen": exp,
                    "range_values_checked": ctx.range_values_checked,
                }),
            );
            std::fs::write(&out, serde_json::to_string_pretty(&j).unwrap()).expect("write result");
        }
        "miri-slice" => {
            let mut rep = report::Report::new();
            match args.get(2).map(|s| s.as_str()) {
                Some("C03") => props::c03::miri_slice(&mut rep),
                _ => props::c01::miri_slice(&mut rep),
            }
            let ctx = mon::take_ctx();
            if rep.violations_total == 0 && ctx.hits_total == 0 {
                println!("miri-slice ok evaluations={}", rep.evaluations);
            } else {
                println!("miri-slice FAILED violations={} hits={}", rep.violations_total, ctx.hits_total);
                std::process::exit(1);
            }
        }
        "replay-history" => {
            let text = std::fs::read_to_string(&args[2]).expect("read replay file");
            let j: Value = serde_json::from_str(&text).expect("parse replay file");
            std::process::exit(replay_history(&j));
        }
        "alloc-audit" => {
            let n: u64 = args.get(2).and_then(|s| s.parse().ok()).unwrap_or(1000);
            let acc = props::c18::alloc_audit(n);
            println!("alloc-audit n={} checksum={} harness_counted_allocs={}", n, acc, mon::alloc_calls());
        }
        _ => usage(),
    }
}

/// Re-executes a recorded history against the current tree under the same monitors and prints
/// every event with the real outputs; exit 1 if any monitor fires again, 0 otherwise.
fn replay_history(j: &Value) -> i32 {
    let case = &j["case"];
    let scanner = case["scanner"].as_str().unwrap_or("?").to_string();
    let mut events: Vec<scan::Ev> = Vec::new();
    for e in case["events"].as_array().map(|a| a.as_slice()).unwrap_or(&[]) {
        let Some(t) = e.as_str() else { continue };
        if let Some(rest) = t.strip_prefix("repeat ") {
            // "repeat <n>x: ev | ev"
            if let Some((n, body)) = rest.split_once("x: ") {
                let n: usize = n.parse().unwrap_or(0);
                let evs: Vec<scan::Ev> = body.split(" | ").filter_map(scan::Ev::parse).collect();
                for _ in 0..n {
                    events.extend(evs.iter().copied());
                }
            }
        } else if let Some(ev) = scan::Ev::parse(t) {
            events.push(ev);
        }
    }
    let quiet = events.len() > 400;
    let mut rep = report::Report::new();
    println!("scanner={} timeout_ns={} events={}", scanner, case["timeout_ns"], events.len());
    // monitors create their scanner alternately with new() and default(): replay both ways
    for by_default in [false, true] {
    scan::force_construction(Some(by_default));
    println!("-- scanner created with {}", if by_default { "default()" } else { "new()" });
    match scanner.as_str() {
        "cc14" => {
            let mut m = scan::Cc14Mon::new();
            for e in &events {
                let o = m.apply(e, &mut rep, &|| vec!["(see replay file)".to_string()]);
                if !quiet || o.is_some() {
                    println!("  {:<12} -> {:?}", e.render(), o);
                }
            }
        }
        "pn" => {
            let mut m = scan::PnMon::new();
            for e in &events {
                let o = m.apply(e, &mut rep, &|| vec!["(see replay file)".to_string()]);
                if !quiet || o.is_some() {
                    println!("  {:<12} -> {:?}", e.render(), o);
                }
            }
        }
        #[cfg(feature = "std")]
        "polling" => {
            let t = case["timeout_ns"].as_u64().unwrap_or(0);
            let mut m = poll::PollMon::new(t);
            for e in &events {
                let o = m.apply(e, &mut rep, &|| vec!["(see replay file)".to_string()]);
                if !quiet || o != [None, None] {
                    println!("  {:<12} (t={}) -> {:?}", e.render(), m.now, o);
                }
            }
        }
        _ => {
            println!("no direct replay for scanner kind {}", scanner);
            return 2;
        }
    }
    }
    scan::force_construction(None);
    let ctx = mon::take_ctx();
    for v in &rep.violations {
        println!("MONITOR FIRED: {} -- {}", v.sig, v.desc);
    }
    for h in &ctx.hits {
        println!("MONITOR HIT: {:?} {} {}", h.kind, h.entry, h.detail);
    }
    println!("recorded signature: {}", j["signature"]);
    if rep.violations.is_empty() && ctx.hits.is_empty() {
        println!("no monitor fired on the current tree (the monitors that judge single events only; twin/transducer oracles are re-run by ./check replay)");
        0
    } else {
        1
    }
}
